"""C19 - graph pruning removes exactly the intended nodes and keeps the graph connected."""
from __future__ import annotations

import copy
import math

from vlib import env  # noqa: F401
import networkx as nx
import torch
from hypothesis import strategies as st
from torch.fx.node import Node, map_arg

from unit_scaling.transforms import prune_non_float_tensors, prune_same_scale_tensors, prune_selected_nodes, track_scales
from vlib import dsl
from vlib.runner import CaseResult, Check, Part, exc_bucket, main

RTOLS = [2.0**-16, 2.0**-8, 2.0**-2]


@st.composite
def cases(draw, tier):
    return dict(prog=draw(dsl.track_programs()), seed=draw(st.integers(0, 10**6)), backward=draw(st.sampled_from([True, True, False])),
                target_picks=draw(st.lists(st.integers(0, 40), min_size=0, max_size=5)))


def all_inputs(n: Node):
    out = []
    map_arg((n.args, n.kwargs), lambda a: out.append(a) or a)
    return out


def isfloat(n: Node) -> bool:
    return bool(n.meta.get("outputs_float_tensor", False))


def same_scale(a, b, rtol) -> bool:
    """documented rule: mean |x| within rtol, forward and (when both recorded) backward"""
    def d(x, y):
        return math.isclose(x.mean_abs, y.mean_abs, rel_tol=rtol)
    if a.bwd is None and b.bwd is None:
        return d(a.fwd, b.fwd)
    if a.bwd is None or b.bwd is None:
        return False
    return d(a.fwd, b.fwd) and d(a.bwd, b.bwd)


def model(graph, mode, rtol=None, targets=(), reading="positional"):
    """representative-map model: walk the original nodes in order; rep[n] = n if kept, the representative of its single
    float input if removed with exactly one, else None.  Returns (kept names, expected input sets, dont_care names)."""
    rep = {}
    kept = []
    edges = {}
    dont_care = set()
    for n in graph.nodes:
        ins = [rep[a] for a in all_inputs(n)]
        top = [rep[a] for a in n.args if isinstance(a, Node)]
        fl_top = [a for a in top if a is not None and isfloat(a)]
        fl_all = [a for a in ins if a is not None and isfloat(a)]
        if reading == "all-inputs":
            fl_top = sorted(set(fl_all), key=lambda a: a.name)
        single = len(fl_top) == 1
        ambiguous = (len(fl_top) == 1) != (len(set(fl_all)) == 1)  # positional vs all-inputs reading of "exactly one float input"
        remove = False
        r = None
        if n.op != "output":
            if mode == "nonfloat" and not isfloat(n):
                remove = True
                r = fl_top[0] if single else None
                if ambiguous:
                    dont_care.add(n.name)
            elif mode == "samescale" and isfloat(n):
                if single and same_scale(n.meta["metrics"], fl_top[0].meta["metrics"], rtol):
                    remove = True
                    r = fl_top[0]
                    if ambiguous:
                        dont_care.add(n.name)
                elif ambiguous and len(set(fl_all)) == 1 and isfloat(fl_all[0]) and same_scale(n.meta["metrics"], fl_all[0].meta["metrics"], rtol):
                    dont_care.add(n.name)
            elif mode == "selected" and n.target in targets:
                remove = True
        if remove:
            rep[n] = r
        else:
            rep[n] = n
            kept.append(n.name)
            edges[n.name] = sorted({a.name for a in ins if a is not None})
    return kept, edges, dont_care


def actual(g):
    return [n.name for n in g.nodes], {n.name: sorted({a.name for a in n.all_input_nodes}) for n in g.nodes}


def snapshot(graph):
    return str(graph), [(n.name, n.op, str(n.target), str(n.args), str(n.kwargs), sorted(n.meta.keys())) for n in graph.nodes]


def lost_pairs(graph_before, kept, edges_model, edges_actual):
    """producer -> consumer reachability among surviving nodes (networkx) that the returned graph lost"""
    G1 = nx.DiGraph()
    G2 = nx.DiGraph()
    for n in kept:
        G1.add_node(n)
        G2.add_node(n)
        for a in edges_model.get(n, []):
            G1.add_edge(a, n)
        for a in edges_actual.get(n, []):
            G2.add_edge(a, n)
    t1 = nx.transitive_closure(G1)
    t2 = nx.transitive_closure(G2)
    return sorted(set(t1.edges()) - set(t2.edges()))[:4], sorted(set(t2.edges()) - set(t1.edges()))[:4]


def run(c) -> CaseResult:
    res = CaseResult()
    prog = c["prog"]
    m = dsl.build_module(prog, c["seed"])
    src = m._verif_source
    inputs = dsl.make_inputs(prog, c["seed"])
    tm = track_scales(m)
    y = tm(**{k: v.clone() for k, v in inputs.items()})
    outs = y if isinstance(y, tuple) else (y,)
    if c["backward"]:
        loss = sum(o.sum() for o in outs if o.is_floating_point() and o.requires_grad)
        if isinstance(loss, torch.Tensor):
            loss.backward()
    graph = tm.scales_graph()
    present = []
    for n in graph.nodes:
        if n.op in ("call_function", "call_method") and n.target not in present:
            present.append(n.target)
    targets = [present[i % len(present)] for i in c["target_picks"]] if present else []
    jobs = [("nonfloat", None, ())] + [("samescale", r, ()) for r in RTOLS] + [("selected", None, tuple(targets))]
    interesting = False
    for mode, rtol, tg in jobs:
        tag = mode
        before = snapshot(graph)
        work = graph
        try:
            if mode == "nonfloat":
                exp = model(graph, mode)
                pg = prune_non_float_tensors(graph)
            elif mode == "samescale":
                exp = model(graph, mode, rtol)
                pg = prune_same_scale_tensors(graph, rtol) if c["seed"] % 2 else prune_same_scale_tensors(graph=graph, rtol=rtol)
            else:
                work = copy.deepcopy(graph)   # selective pruning works in place: give it its own copy
                exp = model(work, mode, None, tg)
                # `targets` is documented as an Iterable: tuple / list / set / one-shot generator / keyword
                sp = c["seed"] % 5
                tg_arg = [tg, list(tg), set(tg), (t_ for t_ in tg), tg][sp]
                pg = prune_selected_nodes(work, targets=tg_arg) if sp == 4 else prune_selected_nodes(work, tg_arg)
        except Exception as e:  # noqa: BLE001
            res.fail(exc_bucket(f"C19.raises:{tag}", e)[:300], f"{type(e).__name__}: {str(e)[:300]}\n{src}")
            continue
        kept, edges, dont_care = exp
        try:
            pg.lint()
        except Exception as e:  # noqa: BLE001
            res.fail(f"C19.lint:{tag}", f"returned graph is not well-formed: {str(e)[:200]}\n{src}")
            continue
        names, aedges = actual(pg)
        if dont_care:
            # "exactly one float input" can be read positionally or over all inputs for these nodes: accept either reading
            res.labels.append("dont-care-node")
            alt = model(work if mode == "selected" else graph, mode, rtol, tg, reading="all-inputs")
            if names == alt[0] and all(aedges[n] == alt[1][n] for n in alt[0]):
                kept, edges = alt[0], alt[1]
        if names != kept:
            extra = [n for n in names if n not in kept]
            missing = [n for n in kept if n not in names]
            res.fail(f"C19.nodes:{tag}" + (":order" if not extra and not missing else ""),
                     f"{mode} rtol={rtol} targets={[getattr(t, '__name__', str(t)) for t in tg]}: kept-but-should-be-removed {extra}, removed-but-should-be-kept {missing}\n{src}")
            continue
        bad = [n for n in kept if aedges[n] != edges[n]]
        if bad:
            lost, gained = lost_pairs(graph, kept, edges, aedges)
            n0 = bad[0]
            res.fail(f"C19.edges:{tag}", f"{mode}: node {n0} has inputs {aedges[n0]}, expected {edges[n0]}; lost reachability {lost}, spurious {gained}\n{src}")
        if mode != "selected" and snapshot(graph) != before:
            res.fail(f"C19.input-graph-modified:{tag}", f"{mode} changed the graph it was given")
        removed = [n.name for n in graph.nodes if n.name not in kept]
        # non-trivial: a removed node sits inside a nested / keyword argument of a consumer
        for n in work.nodes if mode == "selected" else graph.nodes:
            if n.name in removed:
                for u in n.users:
                    if n not in [a for a in u.args if isinstance(a, Node)]:
                        interesting = True
        res.labels.append(f"{mode}:removed={'0' if not removed else ('1-3' if len(removed) <= 3 else '>3')}")
    # ---- chained pruning: a helper applied to the *result* of another helper (the retained intermediate must stay unchanged)
    try:
        first = prune_non_float_tensors(graph) if c["seed"] % 2 == 0 else prune_same_scale_tensors(graph, RTOLS[1])
        before = snapshot(first)
        second_mode = ("samescale", RTOLS[2]) if c["seed"] % 2 == 0 else ("nonfloat", None)
        exp = model(first, second_mode[0], second_mode[1])
        pg = prune_same_scale_tensors(first, RTOLS[2]) if second_mode[0] == "samescale" else prune_non_float_tensors(first)
        if snapshot(first) != before or pg is first:
            res.fail(f"C19.input-graph-modified:chained-{second_mode[0]}", f"{second_mode[0]} pruning applied to the result of an earlier pruning pass changed (or returned) its input graph")
        names, aedges = actual(pg)
        if not exp[2]:
            if names != exp[0]:
                res.fail(f"C19.nodes:chained-{second_mode[0]}", f"chained pruning kept {names}, expected {exp[0]}\n{src}")
            elif any(aedges[n] != exp[1][n] for n in exp[0]):
                res.fail(f"C19.edges:chained-{second_mode[0]}", f"chained pruning: inputs differ from the model\n{src}")
        res.labels.append("chained")
    except Exception as e:  # noqa: BLE001
        res.fail(exc_bucket("C19.raises:chained", e)[:300], f"{type(e).__name__}: {str(e)[:300]}\n{src}")
    res.nontrivial = interesting
    res.sample = dict(source=src, nodes=len(list(graph.nodes)))
    return res


CHECK = Check(
    id="C19",
    parts=[Part("prune", run, strategy=cases, budget={"quick": 400, "thorough": 30000})],
    rule=("Hypothesis-generated tracked graphs (modules as C18: cat / stack / rotate-half list consumers, keyword tensor arguments, integer "
          "index tensors, views / reshapes / negations / *1.0, multi-output), each pruned five ways: non-float, same-scale at rtol 2^-16, 2^-8, "
          "2^-2, selected targets (random subset of the targets present), plus one chained call (a copying helper applied to the retained result of the other). Oracle: representative-map model computed from the input graph "
          "(kept node list in order, input set of every kept node wherever the removed node occurred - positional, keyword, nested), "
          "graph.lint(), input graph unchanged for the two copying helpers, networkx transitive closure to name lost producer-consumer pairs. "
          "Nodes for which 'exactly one float input' differs between positional and all-input counting are don't-cares (the mode is skipped). "
          "Non-trivial = a removed node was held by a consumer inside a nested or keyword argument."),
    assumptions=["same-scale membership: math.isclose on recorded mean_abs, forward and (when both recorded) backward, as documented",
                 "prune_selected_nodes works in place (documented): it is given its own deepcopy"],
    shards={"quick": 8, "thorough": 14},
    time_budget={"quick": 300.0, "thorough": 3000.0},
)

if __name__ == "__main__":
    main(CHECK)
