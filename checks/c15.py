"""C15 - format simulation = straight-through quantisation exactly at matmul boundaries."""
from __future__ import annotations

import collections
import copy
from unittest.mock import patch

from vlib import env  # noqa: F401
import torch
import torch.nn.functional as F
from hypothesis import strategies as st
from torch import nn

import unit_scaling as uu
import unit_scaling.functional as U
from unit_scaling.formats import FPFormat
from unit_scaling.transforms import simulate_format, simulate_fp8
from unit_scaling.transforms.utils import apply_transform
from vlib import dsl
from vlib.runner import CaseResult, Check, Part, exc_bucket, main

FORMATS = {"E4M3": (4, 3), "E5M2": (5, 2), "E3M2": (3, 2), "E5M10": (5, 10), "E8M23": (8, 23), "E2M1": (2, 1)}
FLOAT_INPUTS = ("x", "x2")


def pinned(*args, **kw):
    """substitute for torch.randint: a pure function of (high, shape) - independent of call order"""
    if len(args) >= 3:
        low, high, shape = args[0], args[1], args[2]
    else:
        low, high, shape = 0, args[0], args[1]
    n = 1
    for s_ in shape:
        n *= int(s_)
    r = (torch.arange(n, dtype=torch.int64) * 2654435761 + 12345 + 7 * n) % max(1, (high - low)) + low
    return r.reshape(tuple(shape)).to(kw.get("dtype") or torch.int64)


def fmt_st():
    return st.builds(lambda name, rounding, sr: dict(name=name, rounding=rounding, srbits=sr if rounding == "stochastic" else 0),
                     st.sampled_from(list(FORMATS)), st.sampled_from(["nearest", "nearest", "stochastic"]), st.sampled_from([0, 0, 3]))


def mk_fmt(d):
    E, M = FORMATS[d["name"]]
    sr = d["srbits"] if d["srbits"] <= 23 - M else 0
    return FPFormat(E, M, rounding=d["rounding"], srbits=sr)


def lossless(d):
    return d["name"] == "E8M23"


@st.composite
def cases(draw, tier):
    root = draw(st.sampled_from(["program"] * 10 + ["nn.Linear", "nn.Linear", "uu.Linear", "uu.Linear", "sequential", "sequential", "nested-sequential"]))
    c = dict(root=root, fwd=draw(fmt_st()), bwd=draw(fmt_st()), seed=draw(st.integers(0, 10**6)), via=draw(st.sampled_from(["simulate_format"] * 4 + ["simulate_fp8"])))
    if draw(st.integers(0, 4)) == 0:
        c["fwd"] = dict(name="E8M23", rounding=draw(st.sampled_from(["nearest", "stochastic"])), srbits=0)
        c["bwd"] = dict(c["fwd"])
    if root == "program":
        c["prog"] = draw(dsl.quant_programs())
        c["nnroot"] = draw(st.integers(0, 4)) == 0  # the program behind an nn.Sequential root
    else:
        c["h"] = draw(st.sampled_from([2, 4, 8]))
        c["bias"] = draw(st.booleans())
        c["rank"] = draw(st.integers(2, 4))
    c["input_grad"] = draw(st.integers(0, 3)) != 0
    if c["via"] == "simulate_fp8":
        c["fwd"] = dict(name="E4M3", rounding="stochastic", srbits=0)
        c["bwd"] = dict(name="E5M2", rounding="stochastic", srbits=0)
    return c


def prep(inputs, rg=True):
    return {k: (v.clone().requires_grad_(rg) if k in FLOAT_INPUTS else v.clone()) for k, v in inputs.items()}


def bitequal(a, b):
    if a is None or b is None:
        return (a is None) == (b is None)
    return a.shape == b.shape and torch.equal(a.isnan(), b.isnan()) and torch.equal(a.nan_to_num(0.0), b.nan_to_num(0.0))


def spell_feature(prog):
    f = set()
    for s in prog["stmts"]:
        if s["op"] == "linear" and s["spell"] in ("kwbias", "allkw", "nobias"):
            f.add("linear-" + s["spell"])
        if s["op"] == "sdpa" and s["mask"] is not None and s["mask_spell"] == "pos":
            f.add("mask-positional")
        if s["op"] == "sdpa" and s["unit"]:
            f.add("U.sdpa")
        if s["op"] == "ulinear":
            f.add("U.linear")
    return sorted(f)


def run(c) -> CaseResult:
    res = CaseResult()
    rg = bool(c.get("input_grad", True))   # do the float inputs require a gradient? (a first layer fed by data: only the parameters do)
    if not rg:
        res.labels.append("inputs-without-grad")
    fwd, bwd = mk_fmt(c["fwd"]), mk_fmt(c["bwd"])
    torch.manual_seed(c["seed"])
    nnroot = bool(c.get("nnroot"))

    def call(mod, d):
        return dsl.call(mod, c["prog"], d, nnroot) if c["root"] == "program" else mod(d["x"])
    if c["root"] == "program":
        prog = c["prog"]
        m = dsl.build_module(prog, c["seed"])
        if nnroot:
            m = dsl.nn_root(m)
        inputs = dsl.make_inputs(prog, c["seed"])
        feats = spell_feature(prog) + (["root=nn.Sequential(program)"] if nnroot else [])
        src = m._verif_source

        def reference(P, inp, mode):
            return dsl.evaluate(prog, dsl.named_tensors(qm), inp, mode)
        n_q = sum({"linear": 1, "ulinear": 1, "sdpa": 1, "seq": 2, "mlp2": 2}.get(s["op"], 0) for s in prog["stmts"])
    else:
        h = c["h"]
        feats = ["root=" + c["root"]]
        if c["root"] == "nn.Linear":
            m = nn.Linear(h, h, bias=c["bias"])
        elif c["root"] == "uu.Linear":
            m = uu.Linear(h, h, bias=c["bias"])
        elif c["root"] == "nested-sequential":
            m = nn.Sequential(nn.Sequential(nn.Linear(h, h, bias=c["bias"]), nn.ReLU()), nn.Linear(h, h, bias=not c["bias"]))
        else:
            m = nn.Sequential(nn.Linear(h, h, bias=c["bias"]), nn.Tanh(), uu.Linear(h, h, bias=c["bias"]))
        g = torch.Generator().manual_seed(c["seed"])
        shape = [2, 3, 2, h][-c["rank"]:]
        inputs = dict(x=torch.randn(shape, generator=g))
        src = repr(m)
        n_q = 2 if c["root"] in ("sequential", "nested-sequential") else 1

        def reference(P, inp, mode):
            x = inp["x"]
            if c["root"] == "nn.Linear":
                return mode.linear({}, x, P["weight"], P.get("bias"))
            if c["root"] == "uu.Linear":
                return mode.ulinear({}, x, P["weight"], P.get("bias"))
            if c["root"] == "nested-sequential":
                return mode.linear({}, torch.relu(mode.linear({}, x, P["0.0.weight"], P.get("0.0.bias"))), P["1.weight"], P.get("1.bias"))
            y = mode.linear({}, x, P["0.weight"], P.get("0.bias"))
            return mode.ulinear({}, torch.tanh(y), P["2.weight"], P.get("2.bias"))
    if not rg and not any(True for _ in m.parameters()):
        rg = True   # nothing would require a gradient at all
    ftag = "+".join(feats) or "plain"
    if c["root"] in ("nn.Linear", "sequential", "nested-sequential"):
        # is the transform applied at all?  (root class defined in torch.nn)
        captured = []

        def rec0(gm, ex):
            captured.append(sum(1 for n in gm.graph.nodes if n.op == "call_function" and n.target is F.linear))
            return gm
        apply_transform(m, rec0)(inputs["x"])
        if sum(captured) < n_q:  # the root frame (and with it some or all of the linears) never reaches the backend
            res.fail("C15.torch-nn-root-not-transformed", f"apply_transform never hands a graph to the backend when the root module's class is defined in torch.nn "
                     f"({type(m).__name__}): simulate_format / simulate_fp8 of such a module silently computes the unquantised function")
            res.labels.append("root=torch.nn(not transformed)")
            return res
    rtag = f"{'nearest' if c['fwd']['rounding'] == 'nearest' else 'stochastic'}"
    res.labels += feats + [f"fwd={c['fwd']['name']}", f"rounding={rtag}", c["via"]] + (["lossless"] if lossless(c["fwd"]) and lossless(c["bwd"]) else [])
    try:
        if c["via"] == "simulate_fp8":
            qm = simulate_fp8(m)
        elif c["seed"] % 3 == 0:   # keyword spelling, any order
            qm = simulate_format(bwd_format=bwd, module=m, fwd_format=fwd)
        else:
            qm = simulate_format(m, fwd, bwd)
        P = dict(qm.named_parameters())
        fl = prep(inputs, rg)
        with patch("torch.randint", pinned):
            y = call(qm, fl)
            up = torch.ones_like(y) if y.dim() == 0 else torch.randn(y.shape, generator=torch.Generator().manual_seed(c["seed"] + 1))
            diff = [fl[k] for k in FLOAT_INPUTS if k in fl and fl[k].requires_grad] + list(P.values())
            g = torch.autograd.grad(y, diff, up, allow_unused=True)
    except Exception as e:  # noqa: BLE001
        res.fail(exc_bucket("C15.raises", e).replace("outside-library", "via-dynamo")[:300], f"{type(e).__name__}: {str(e)[:300]}\n{src}")
        return res
    # reference: hand-written straight-through quantisation with the caller's format objects
    fr = prep(inputs, rg)
    mode = dsl.quantised(dsl.Plain, fwd, bwd)
    mode.begin({})
    with patch("torch.randint", pinned):
        yr = reference(P, fr, mode)
        gr = torch.autograd.grad(yr, [fr[k] for k in FLOAT_INPUTS if k in fr and fr[k].requires_grad] + list(P.values()), up, allow_unused=True)
    names = [k for k in FLOAT_INPUTS if k in fl and fl[k].requires_grad] + list(P.keys())
    if not bitequal(y.detach(), yr.detach()):
        res.fail(f"C15.value[{rtag}]", f"transformed module differs from the hand-quantised reference (fwd={fwd}, bwd={bwd}): max diff {(y - yr).abs().max().item():.3g}\n{src}")
    else:
        for name, a, b in zip(names, g, gr):
            if not bitequal(a, b):
                res.fail(f"C15.grad[{rtag}]", f"gradient wrt {name} differs from the hand-quantised reference (fwd={fwd}, bwd={bwd})\n{src}")
                break
    # inference: without gradient tracking the operands are still quantised
    try:
        with patch("torch.randint", pinned), torch.no_grad():
            i1 = {k: v.clone() for k, v in inputs.items()}
            y_ng = call(qm, i1)
            yr_ng = reference(P, {k: v.clone() for k, v in inputs.items()}, mode)
        if not bitequal(y_ng, yr_ng):
            res.fail(f"C15.value.no_grad[{rtag}]", f"under torch.no_grad() the transformed module differs from the hand-quantised reference (fwd={fwd}, bwd={bwd})\n{src}")
    except Exception as e:  # noqa: BLE001
        res.fail(exc_bucket("C15.raises.no_grad", e).replace("outside-library", "via-dynamo")[:300], f"{type(e).__name__}: {str(e)[:300]}\n{src}")
    # a second call of the same transformed module with another batch size (TorchDynamo recompiles: the backend runs again)
    if c["root"] == "program" and not any(s_["op"] == "shape" and s_["kind"] in ("flat", "view") for s_ in prog["stmts"]):
        prog_b = dict(prog, B=prog["B"] + 1)
        inputs_b = dsl.make_inputs(prog_b, c["seed"] + 3)
        try:
            fb, frb = prep(inputs_b, rg), prep(inputs_b, rg)
            mode_b = dsl.quantised(dsl.Plain, fwd, bwd)
            mode_b.begin({})
            with patch("torch.randint", pinned):
                yb = call(qm, fb)
                upb = torch.ones_like(yb)
                gb = torch.autograd.grad(yb, [fb[k] for k in FLOAT_INPUTS if k in fb and fb[k].requires_grad] + list(P.values()), upb, allow_unused=True)
                yrb = dsl.evaluate(prog_b, dsl.named_tensors(qm), frb, mode_b)
                grb = torch.autograd.grad(yrb, [frb[k] for k in FLOAT_INPUTS if k in frb and frb[k].requires_grad] + list(P.values()), upb, allow_unused=True)
            if not bitequal(yb.detach(), yrb.detach()) or not all(bitequal(a, b) for a, b in zip(gb, grb)):
                res.fail(f"C15.second-call.other-batch-size[{rtag}]", f"a second call with batch size {prog_b['B']} differs from the hand-quantised reference (the first call with {prog['B']} agreed)\n{src}")
            res.labels.append("second-call-other-batch-size")
        except Exception as e:  # noqa: BLE001
            res.fail(exc_bucket("C15.raises.second-call", e).replace("outside-library", "via-dynamo")[:300], f"{type(e).__name__}: {str(e)[:300]}\n{src}")
    # lossless format: bit-identical to the untransformed module (no harness arithmetic at all)
    if lossless(c["fwd"]) and lossless(c["bwd"]) and c["via"] == "simulate_format":
        f0 = prep(inputs, rg)
        P0 = dict(m.named_parameters())
        y0 = call(m, f0)
        g0 = torch.autograd.grad(y0, [f0[k] for k in FLOAT_INPUTS if k in f0 and f0[k].requires_grad] + list(P0.values()), up, allow_unused=True)
        if not bitequal(y.detach(), y0.detach()) or not all(bitequal(a, b) for a, b in zip(g, g0)):
            def ulp_close(a, b):
                if a is None or b is None:
                    return (a is None) == (b is None)
                return a.shape == b.shape and bool(((a - b).abs() <= 4e-6 * max(1e-30, float(b.abs().max()))).all())
            if ulp_close(y.detach(), y0.detach()) and all(ulp_close(a, b) for a, b in zip(g, g0)):
                # last-ulp differences: the straight-through quantisation ops hand on contiguous copies of gradients that are
                # expanded / strided in the untransformed module, which changes the summation order of later reductions
                worst = max([float((a - b).abs().max() / max(1e-30, float(b.abs().max()))) for a, b in zip(g, g0) if a is not None and b is not None] + [0.0])
                res.fail("C15.lossless.last-ulp", f"E8M23 simulation differs from the untransformed module in the last ulps (max {worst:.3g} relative to the largest element)\n{src}")
            else:
                res.fail("C15.lossless-not-identity", f"E8M23 simulation changed outputs or gradients\n{src}")
    # simulate_fp8 is the E4M3 / E5M2 instance
    if c["via"] == "simulate_fp8":
        qm2 = simulate_format(m, FPFormat(4, 3), FPFormat(5, 2))
        f2 = prep(inputs, rg)
        with patch("torch.randint", pinned):
            y2 = call(qm2, f2)
            g2 = torch.autograd.grad(y2, [f2[k] for k in FLOAT_INPUTS if k in f2 and f2[k].requires_grad] + list(qm2.parameters()), up, allow_unused=True)
        if not bitequal(y.detach(), y2.detach()) or not all(bitequal(a, b) for a, b in zip(g, g2)):
            res.fail("C15.simulate_fp8-instance", "simulate_fp8(m) differs from simulate_format(m, FPFormat(4,3), FPFormat(5,2))")
    # rewritten graph: every linear / attention node replaced, nothing else
    if c["root"] == "program":
        try:
            captured = []

            def rec(gm, ex):
                captured.append(copy.deepcopy(gm))
                return gm
            probe = apply_transform(m, rec)
            call(probe, inputs)
            if len(captured) == 1:
                before = collections.Counter(str(n.target) for n in captured[0].graph.nodes if n.op in ("call_function", "call_method"))
                gm2 = qm.backends[-1](captured[0], [])
                after = collections.Counter(str(n.target) for n in gm2.graph.nodes if n.op in ("call_function", "call_method"))
                nq = sum(v for k, v in after.items() if "_quantised_" in k)
                removed = before - after
                added = after - before
                if nq != n_q or sum(removed.values()) != n_q or sum(added.values()) != n_q:
                    res.fail("C15.graph", f"{nq} quantised nodes for {n_q} linear/attention ops; removed {dict(removed)}, added {dict(added)}\n{src}")
        except Exception as e:  # noqa: BLE001
            res.fail(exc_bucket("C15.graph.raises", e)[:300], f"{type(e).__name__}: {str(e)[:200]}")
    lossy = not (lossless(c["fwd"]) and lossless(c["bwd"]))
    res.nontrivial = (n_q >= 1 and lossy) or any(f.startswith(("linear-", "mask-")) for f in feats)
    res.sample = dict(source=src, fwd=str(fwd), bwd=str(bwd))
    return res


# ------------------------------------------------------------------ the backend called directly on hand-built FX graphs


@st.composite
def fx_cases(draw, tier):
    prog = draw(dsl.quant_programs())
    for s_ in prog["stmts"]:
        if s_["op"] == "ulinear":
            # U.linear_readout never reaches a backend as a *node* through the public paths (unit_scale emits U.linear, TorchDynamo
            # inlines user-level calls), and the backend's replacement table does not list it: not generated here
            s_["readout"] = False
    return dict(prog=prog, fwd=draw(fmt_st()), bwd=draw(fmt_st()), seed=draw(st.integers(0, 10**6)))


def run_fx(c) -> CaseResult:
    """U.linear / U.scaled_dot_product_attention survive as nodes here (TorchDynamo would inline them), with the constraint given
    positionally, by keyword (incl. constraint=None) or omitted"""
    res = CaseResult()
    prog = c["prog"]
    fwd, bwd = mk_fmt(c["fwd"]), mk_fmt(c["bwd"])
    m = dsl.build_module(prog, c["seed"])
    T = dsl.named_tensors(m)
    inputs = dsl.make_inputs(prog, c["seed"])
    gm, keys = dsl.to_fx(prog)
    src = m._verif_source

    def args(fl):
        return [fl[k] if k in fl else T[k] for k in keys]
    try:
        backend = simulate_format(nn.Identity(), fwd, bwd).backends[-1]
        import copy as _copy
        qgm = backend(_copy.deepcopy(gm), [])
        fl = prep(inputs)
        with patch("torch.randint", pinned):
            y = qgm(*args(fl))
            y = y[0] if isinstance(y, tuple) else y
            diff = [fl[k] for k in FLOAT_INPUTS if k in fl] + list(m.parameters())
            g = torch.autograd.grad(y, diff, allow_unused=True)
    except Exception as e:  # noqa: BLE001
        res.fail(exc_bucket("C15.fx.raises", e)[:300], f"{type(e).__name__}: {str(e)[:300]}\n{src}")
        return res
    fr = prep(inputs)
    mode = dsl.quantised(dsl.Plain, fwd, bwd)
    with patch("torch.randint", pinned):
        yr = dsl.evaluate(prog, T, fr, mode)
        gr = torch.autograd.grad(yr, [fr[k] for k in FLOAT_INPUTS if k in fr] + list(m.parameters()), allow_unused=True)
    if not bitequal(y.detach(), yr.detach()):
        res.fail("C15.fx.value", f"backend on the hand-built FX graph differs from the hand-quantised reference (fwd={fwd}, bwd={bwd})\n{src}")
    else:
        names = [k for k in FLOAT_INPUTS if k in fl] + [n for n, _ in m.named_parameters()]
        for name, a, b in zip(names, g, gr):
            if not bitequal(a, b):
                res.fail("C15.fx.grad", f"backend on the hand-built FX graph: gradient wrt {name} differs from the hand-quantised reference (fwd={fwd}, bwd={bwd})\n{src}")
                break
    n_q = sum({"linear": 1, "ulinear": 1, "sdpa": 1, "seq": 2, "mlp2": 2}.get(s_["op"], 0) for s_ in prog["stmts"])
    nq = sum(1 for n in qgm.graph.nodes if n.op == "call_function" and "_quantised_" in str(n.target))
    if nq != n_q:
        res.fail("C15.fx.graph", f"{nq} quantised nodes for {n_q} linear/attention ops\n{src}")
    res.nontrivial = n_q >= 1 and not (lossless(c["fwd"]) and lossless(c["bwd"]))
    res.labels += ["fx-backend"] + (["U.linear-node"] if any(s_["op"] == "ulinear" for s_ in prog["stmts"]) else []) + \
        (["U.sdpa-node"] if any(s_["op"] == "sdpa" and s_["unit"] for s_ in prog["stmts"]) else [])
    return res


# ------------------------------------------------------------------ many instances of ONE model class in one process


@st.composite
def repeat_cases(draw, tier):
    return dict(prog=draw(dsl.quant_programs(max_ops=5)), seed=draw(st.integers(0, 10**6)), n=draw(st.sampled_from([10, 12])),
                fwd=dict(name="E4M3", rounding="nearest", srbits=0), bwd=dict(name="E5M2", rounding="nearest", srbits=0))


def run_repeat(c) -> CaseResult:
    """state carried over between transforms: the k-th transformed instance of the same class (same forward code object) must
    still be quantised (TorchDynamo falls back to eager silently once a code object exceeds its recompile limit)"""
    res = CaseResult()
    prog = c["prog"]
    fwd, bwd = mk_fmt(c["fwd"]), mk_fmt(c["bwd"])
    cls = dsl.build_class(prog)
    n_q = sum({"linear": 1, "ulinear": 1, "sdpa": 1, "seq": 2, "mlp2": 2}.get(s["op"], 0) for s in prog["stmts"])
    for k in range(c["n"]):
        m = dsl.build_module(prog, c["seed"] + k, cls=cls)
        inputs = dsl.make_inputs(prog, c["seed"] + k)
        try:
            qm = simulate_format(m, fwd, bwd)
            fl = prep(inputs)
            y = qm(**fl)
            g = torch.autograd.grad(y, [fl[k_] for k_ in FLOAT_INPUTS if k_ in fl] + list(qm.parameters()), allow_unused=True)
        except Exception as e:  # noqa: BLE001
            res.fail(exc_bucket("C15.repeat.raises", e)[:300], f"instance #{k + 1}: {type(e).__name__}: {str(e)[:200]}")
            return res
        fr = prep(inputs)
        mode = dsl.quantised(dsl.Plain, fwd, bwd)
        yr = dsl.evaluate(prog, dsl.named_tensors(qm), fr, mode)
        gr = torch.autograd.grad(yr, [fr[k_] for k_ in FLOAT_INPUTS if k_ in fr] + list(qm.parameters()), allow_unused=True)
        if not bitequal(y.detach(), yr.detach()) or not all(bitequal(a, b) for a, b in zip(g, gr)):
            res.fail("C15.repeat.not-transformed" if n_q else "C15.repeat.value",
                     f"instance #{k + 1} of the same model class differs from the hand-quantised reference (earlier instances agreed): "
                     f"the transform is not applied any more\n{cls._verif_source}")
            return res
    res.nontrivial = n_q >= 1
    res.labels.append("same-class-x%d" % c["n"])
    return res


# ------------------------------------------------------------------ primitives quantise_fwd / quantise_bwd


@st.composite
def prim_cases(draw, tier):
    return dict(fmt=draw(fmt_st()), which=draw(st.sampled_from(["quantise_fwd", "quantise_bwd"])), shape=draw(st.lists(st.integers(1, 5), min_size=0, max_size=3)),
                seed=draw(st.integers(0, 10**6)), scale=draw(st.sampled_from([1.0, 1e-3, 100.0, 1e4])))


def run_prim(c) -> CaseResult:
    res = CaseResult()
    fmt = mk_fmt(c["fmt"])
    g = torch.Generator().manual_seed(c["seed"])
    x = (torch.randn(c["shape"], generator=g) * c["scale"]).requires_grad_()
    up = torch.randn(c["shape"], generator=g) * c["scale"]
    keep = x.detach().clone()
    try:
        with patch("torch.randint", pinned):
            y = getattr(fmt, c["which"])(x)
            (gx,) = torch.autograd.grad(y, x, up)
            qx = fmt.quantise(keep.clone())
            qg = fmt.quantise(up.clone())
    except Exception as e:  # noqa: BLE001
        res.fail(exc_bucket(f"C15.prim.raises:{c['which']}", e), f"{type(e).__name__}: {e}")
        return res
    if c["which"] == "quantise_fwd":
        if not bitequal(y.detach(), qx):
            res.fail("C15.prim.quantise_fwd.value", f"quantise_fwd(x) != quantise(x) for {fmt}")
        if not bitequal(gx, up):
            res.fail("C15.prim.quantise_fwd.grad", f"quantise_fwd changed the gradient ({fmt})")
    else:
        if not bitequal(y.detach(), keep):
            res.fail("C15.prim.quantise_bwd.value", f"quantise_bwd changed the forward value ({fmt})")
        if not bitequal(gx, qg):
            res.fail("C15.prim.quantise_bwd.grad", f"gradient through quantise_bwd != quantise(upstream) for {fmt}")
    if not torch.equal(x.detach(), keep):
        res.fail("C15.prim.input-modified", "")
    res.nontrivial = not lossless(c["fmt"]) and x.numel() > 0
    res.labels.append(c["which"])
    return res


CHECK = Check(
    id="C15",
    parts=[Part("programs", run, strategy=cases, budget={"quick": 200, "thorough": 5000}),
           Part("fx-backend", run_fx, strategy=fx_cases, budget={"quick": 300, "thorough": 8000}),
           Part("repeat", run_repeat, strategy=repeat_cases, budget={"quick": 8, "thorough": 80}),
           Part("primitives", run_prim, strategy=prim_cases, budget={"quick": 400, "thorough": 6000})],
    rule=("programs: Hypothesis-generated modules (depth 1-12; linear with bias positional / omitted / keyword / all-keyword / nn.Linear, "
          "attention with mask positional or keyword / causal / dropout_p=0, U.linear / U.linear_readout / U.scaled_dot_product_attention, "
          "elementwise ops, norms, adds, reshapes; roots: program module, the program behind an nn.Sequential, bare nn.Linear, bare uu.Linear, nn.Sequential, nested nn.Sequential; inputs of rank 2-4) "
          "x format pairs from {E4M3,E5M2,E3M2,E5M10,E2M1,E8M23} with nearest or stochastic rounding (random source pinned by a substituted "
          "torch.randint that is a pure function of shape). Oracle: reference interpreter with straight-through quantisation written by hand "
          "using the caller's format objects - outputs and every gradient bit-equal; lossless E8M23 == untransformed module bit for bit; "
          "simulate_fp8 == simulate_format(E4M3, E5M2); node count of the rewritten graph. fx-backend: the same programs as hand-built FX graphs handed directly to the backend taken from simulate_format(...).backends[-1] (U.linear / U.scaled_dot_product_attention stay nodes there; constraint positional / keyword incl. None / omitted). repeat: 10-12 instances of ONE generated model class transformed and called in one process, each compared with the reference (state carried over between transforms). primitives: quantise_fwd / quantise_bwd value and "
          "gradient clauses. Non-trivial = >= 1 quantised op with a lossy format, or a keyword-argument spelling."),
    assumptions=["real TorchDynamo path (apply_transform) for every program; the backend is additionally run on the captured FX graph for the node-count clause",
                 "FPFormat.quantise itself is C13/C14's subject: here both sides call it with the same format objects"],
    shards={"quick": 8, "thorough": 14},
    time_budget={"quick": 300.0, "thorough": 3000.0},
)

if __name__ == "__main__":
    main(CHECK)
