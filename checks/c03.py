"""C03 - exact unit scale of the (bi)linear ops at initialisation (constraint None)."""
from __future__ import annotations

import math

from vlib import env  # noqa: F401
import torch
import torch.nn.functional as F
from hypothesis import strategies as st

import unit_scaling.functional as U
from vlib import probes as pb
from vlib.runner import CaseResult, Check, Part, exc_bucket, main

OPS = ["linear", "linear_readout", "matmul", "conv1d", "add", "embedding", "dropout", "mse_loss", "layer_norm", "rms_norm"]
TOL = 1e-9


@st.composite
def cases(draw, tier):
    c = draw(pb.op_cases(ops=OPS, dtypes=["float64"], constraint="none", profiles=["normal"]))
    op = c["op"]
    if op == "matmul" and c["kind"] not in ("eq", "none"):
        c["kind"] = "eq"
        lead = c["l"][:-2]
        c["r"] = lead + c["r"][-2:]
    if op == "add":
        # tensors only, no single-element operand (excluded from the exact clause by the statement)
        full = c["a"] if isinstance(c["a"], list) else (c["b"] if isinstance(c["b"], list) else [2, 3])
        if math.prod(full) == 1:
            full = [max(2, v) for v in full] or [2, 3]
        if not isinstance(c["a"], list) or math.prod(c["a"]) == 1:
            c["a"] = full
        if not isinstance(c["b"], list) or math.prod(c["b"]) == 1:
            c["b"] = c["a"]
    if op == "embedding":
        c["max_norm"] = None
        c["avoid_padding"] = True
    if op == "dropout":
        c["training"] = True
        if c["p"] <= 0:
            c["p"] = 0.25
        c["shape"] = c["shape"][:-1] + [max(c["shape"][-1], 8)]
    if op in ("layer_norm", "rms_norm"):
        c["weight"] = True
        if op == "layer_norm" and draw(st.sampled_from([False, False, True])):
            c["weight"], c["bias"] = False, True   # a bias without a gain (F.layer_norm accepts it): its gradient still has one term per row
    if op == "conv1d":
        if draw(st.booleans()):
            c["padding"] = 0
        # long enough for a non-empty interior of whole stride periods
        k, d, s_ = c["w"][2], c["dilation"], c["stride"]
        need = 2 * d * (k - 1) + 3 * s_ + 1
        if c["x"][-1] < need and draw(st.booleans()):
            c["x"] = c["x"][:-1] + [need + draw(st.integers(0, 6))]
    return c


def count_terms(c, bu):
    """term counts measured on the reference op with all-ones operands (bias zero)"""
    ones = []
    for role, t in zip(bu.roles, bu.ts):
        o = torch.zeros_like(t) if role == "bias" else torch.ones_like(t)
        ones.append(o.requires_grad_())
    y = bu.r(*ones)
    gs = torch.autograd.grad(y, ones, torch.ones_like(y), allow_unused=True)
    return y.detach(), {role: g.detach() for role, g in zip(bu.roles, gs) if g is not None}


def conv_interior(c):
    """input positions reached by every kernel tap, truncated to whole stride periods"""
    L = c["x"][-1]; k = c["w"][2]; d = c["dilation"]; s_ = c["stride"]; p = c["padding"]
    out = (L + 2 * p - d * (k - 1) - 1) // s_ + 1
    lo = (k - 1) * d - p            # first position (unpadded coordinates) seen by the last tap of output 0
    hi = (out - 1) * s_ - p         # last position seen by the first tap of the last output
    lo = max(lo, 0); hi = min(hi, L - 1)
    n = hi - lo + 1
    n -= n % s_
    if n <= 0:
        return None
    return lo, lo + n


def check_scale(res, tag, s, count, want=1.0):
    val = s * s * count
    res.stat(tag, val)
    # rms_norm's denominator is float32 by design: every row carries an independent ~6e-8 relative error, which the weight-gradient sum
    # over rows amplifies when its terms cancel (seen: 1.1e-6, 3 of 18000 thorough cases). One missing / extra term among the <= ~10^3
    # counted would still move the product by >= 1e-3.
    tol = 1e-5 if tag.startswith("rms_norm") else TOL
    if not abs(val - want) <= tol:
        res.fail(f"C03.{tag}", f"scale^2 x terms = {val!r} (scale={s!r}, measured terms={count!r})")


def run(case) -> CaseResult:
    res = CaseResult()
    op = case["op"]
    res.labels.append(f"op={op}")
    P = pb.probe(case, want_bwd=True, seeds=[case["seedA"]])
    if P.status != "ok" or P.fwd_fails or P.bwd_fails:
        res.labels.append("probe-" + (P.status if P.status != "ok" else "failed(C01/C02 territory)"))
        for b, m in P.fwd_fails + P.bwd_fails:
            if ":raises:" in b:
                res.fail("C03." + b, m)
        return res
    bu = pb.build(case, case["seedA"])
    s_out = P.s_fwd[0]
    sb = {r: v[0] for r, v in P.s_bwd.items()}
    if op in ("linear", "linear_readout", "matmul", "add"):
        y1, g1 = count_terms(case, bu)
        if op == "linear_readout":
            val = s_out * y1.mean().item()
            res.stat("readout.out", val)
            if not abs(val - 1) <= TOL:
                res.fail("C03.linear_readout.output", f"scale x fan_in = {val!r}")
        else:
            check_scale(res, f"{op}.output", s_out, y1.mean().item())
        for role, g in g1.items():
            if role in sb:
                check_scale(res, f"{op}.grad_{role}", sb[role], g.mean().item())
    elif op == "conv1d":
        y1, g1 = count_terms(case, bu)
        if case["padding"] == 0:
            check_scale(res, "conv1d.output", s_out, y1.mean().item())
            for role in ("weight", "bias"):
                if role in sb and role in g1:
                    check_scale(res, f"conv1d.grad_{role}", sb[role], g1[role].mean().item())
            res.labels.append("conv:no-padding")
        it = conv_interior(case)
        if it is not None and "input" in sb:
            lo, hi = it
            check_scale(res, "conv1d.grad_input(interior)", sb["input"], g1["input"][..., lo:hi].mean().item())
            res.labels.append("conv:interior")
    elif op == "embedding":
        idx = bu.extra["idx"]
        pidx = case["padding_idx"]
        V = case["V"]
        if pidx is not None and bool((idx == (pidx % V)).any()):
            res.labels.append("embedding:hits-padding(skipped)")
            return res
        _, g1 = count_terms(case, bu)
        rows = g1["weight"]
        if pidx is not None:
            res.labels.append("embedding:padding_idx-not-hit")
        if "weight" in sb:
            check_scale(res, "embedding.grad_weight", sb["weight"], rows.mean().item())
    elif op == "dropout":
        p = case["p"]
        check_scale(res, "dropout.output", s_out, 1 / (1 - p))
        if "input" in sb:
            check_scale(res, "dropout.grad_input", sb["input"], 1 / (1 - p))
    elif op == "mse_loss":
        x, t = (v.clone() for v in bu.ts)

        def gfun(x_, t_):
            x_ = x_.requires_grad_() if not x_.requires_grad else x_
            return torch.autograd.grad(F.mse_loss(x_, t_, reduction="sum"), x_, create_graph=True)[0]
        J = torch.autograd.functional.jacobian(gfun, (x, t))
        n = x.numel()
        cnt = sum((j.reshape(n, n) ** 2).sum(1) for j in J)
        for role in ("input", "target"):
            if role in sb:
                # gradient wrt target has the same magnitude by symmetry of (x - t)^2
                check_scale(res, f"mse_loss.grad_{role}", sb[role], cnt.mean().item())
    elif op in ("layer_norm", "rms_norm"):
        x = bu.ts[0]
        ns = case["ns"]
        b0 = torch.zeros(ns, dtype=x.dtype, requires_grad=True)
        y = F.layer_norm(x, ns, torch.ones(ns, dtype=x.dtype), b0, 1e-5)
        rows = torch.autograd.grad(y, b0, torch.ones_like(y))[0].mean().item()
        for role in ("weight", "bias"):
            if role in sb:
                check_scale(res, f"{op}.grad_{role}", sb[role], rows)
    res.nontrivial = True
    sh = case.get("x") or case.get("l") or case.get("shape") or case.get("idx") or case.get("a")
    if isinstance(sh, list) and len(sh) == 2 and sh[0] == sh[1] and op in ("linear", "matmul"):
        w = case.get("w") or case.get("r")
        if w and w[0] == w[1]:
            res.nontrivial = False  # the unit tests' square 2-D shape
    return res


# ------------------------------------------------------------------ residual add / split


@st.composite
def res_cases(draw, tier):
    tau = draw(st.one_of(st.sampled_from([0.01, 0.5, 1.0, 2.0]), st.floats(math.log(1e-3), math.log(1e3)).map(lambda v: round(math.exp(v), 6))))
    return dict(tau=tau, shape=draw(st.lists(st.integers(1, 3), min_size=1, max_size=3)), seed=draw(pb.seeds))


def run_res(case) -> CaseResult:
    res = CaseResult()
    tau = case["tau"]
    r = pb.rt(case["shape"], case["seed"]); s = pb.rt(case["shape"], case["seed"] + 1)
    n = r.numel()
    # both maps are linear; autograd cannot be used to differentiate them (forward-only / backward-only scales
    # are invisible to it), so the coefficients are read off with basis vectors
    z = torch.zeros(n, dtype=r.dtype)
    cnt = torch.zeros(n, dtype=r.dtype)
    for j in range(n):
        e = z.clone(); e[j] = 1.0
        e = e.reshape(r.shape)
        cnt += U.residual_add(e, torch.zeros_like(e), tau).flatten() ** 2
        cnt += U.residual_add(torch.zeros_like(e), e, tau).flatten() ** 2
    if not bool(((cnt - 1).abs() <= 1e-12).all()):
        res.fail("C03.residual_add.output", f"sum of squared mixing weights = {cnt.flatten()[:3].tolist()} (tau={tau})")

    def back(gr, gs):
        x = r.clone().requires_grad_()
        a, b = U.residual_split(x, tau)
        return torch.autograd.grad([a, b], x, [gr, gs])[0]
    cnt2 = torch.zeros(n, dtype=r.dtype)
    for j in range(n):
        e = z.clone(); e[j] = 1.0
        e = e.reshape(r.shape)
        cnt2 += back(e, torch.zeros_like(e)).flatten() ** 2
        cnt2 += back(torch.zeros_like(e), e).flatten() ** 2
    if not bool(((cnt2 - 1).abs() <= 1e-12).all()):
        res.fail("C03.residual_split.grad", f"sum of squared gradient weights = {cnt2.flatten()[:3].tolist()} (tau={tau})")
    res.nontrivial = tau != 1.0
    res.labels.append("op=residual")
    return res


CHECK = Check(
    id="C03",
    parts=[Part("bilinear", run, strategy=cases, budget={"quick": 4000, "thorough": 200000}),
           Part("residual", run_res, strategy=res_cases, budget={"quick": 800, "thorough": 30000})],
    rule=("bilinear: Hypothesis shapes for linear, linear_readout, matmul (equal/no batch dims), conv1d, add (no single-element "
          "operand), embedding (indices avoiding padding_idx), dropout (training, p in (0,1)), mse_loss, layer/rms-norm gains and "
          "biases, all with constraint None in float64; scalars fitted as in C01/C02, term counts measured by running the "
          "reference op and its autograd on all-ones operands (Jacobian Frobenius norm for mse / residual); clause "
          "scale^2 x terms = 1 +- 1e-9. Non-trivial = anything but the unit tests' square 2-D linear/matmul shapes. residual: "
          "tau log-uniform in [1e-3,1e3]."),
    assumptions=["term counts come from the PyTorch reference op on all-ones tensors, never from a formula",
                 "conv1d input gradient averaged over interior positions truncated to whole stride periods; output/weight/bias only with padding 0 (statement)",
                 "dropout second moment 1/(1-p) analytic"],
    shards={"quick": 8, "thorough": 14},
)

if __name__ == "__main__":
    main(CHECK)
