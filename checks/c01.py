"""C01 - scaled functions equal their PyTorch counterparts up to one data-independent positive scalar."""
from __future__ import annotations

from vlib import env  # noqa: F401
from vlib import probes as pb
from vlib.runner import CaseResult, Check, Part, main


def strategy(tier):
    return pb.op_cases(unsupported_rate=0.15)


def run(case) -> CaseResult:
    res = CaseResult()
    op = case["op"]
    res.labels += pb.class_labels(case)
    if "unsupported" in case:
        name, val = case["unsupported"]
        res.labels.append("unsupported-arg")
        bu = pb.build(case, case["seedA"], (name, val))
        try:
            bu.u(*[t.clone() for t in bu.ts])
        except Exception:  # noqa: BLE001  any exception type counts as "rejected"
            res.nontrivial = True
            return res
        res.fail(f"C01.unsupported-arg-accepted:{op}:{name}", f"U.{op}(..., {name}={val!r}) returned silently")
        return res
    P = pb.probe(case, want_bwd=True)
    res.labels.append(P.status)
    for b, m in P.fwd_fails:
        res.fail("C01." + b, m)
    if P.status == "ok" and not P.fwd_fails:
        # the forward value does not depend on gradient tracking: same call on plain tensors under torch.no_grad()
        import torch
        bu = pb.build(case, case["seedA"])
        try:
            y_grad = bu.u(*[t.clone().requires_grad_() for t in bu.ts]).detach()
            with torch.no_grad():
                y_plain = bu.u(*[t.clone() for t in bu.ts])
            y_in = bu.u(*[t.clone() for t in bu.ts])
            tol_ = pb.tol_for(case)[0]   # (PyTorch itself may pick another kernel when nothing requires grad: rounding-level tolerance)

            def near(a, b):
                a, b = a.detach().double().nan_to_num(0.0), b.detach().double().nan_to_num(0.0)
                return bool(((a - b).abs() <= 4 * tol_ * max(1e-300, float(b.abs().max()))).all())
            if not (y_plain.shape == y_grad.shape and y_plain.dtype == y_grad.dtype and near(y_plain, y_grad) and near(y_in, y_grad)):
                res.fail(f"C01.fwd.grad-mode-dependent:{op}", "the forward value under torch.no_grad() / for inputs that do not require grad differs from the value with gradient tracking")
        except Exception as e:  # noqa: BLE001
            from vlib.runner import exc_bucket
            res.fail(exc_bucket(f"C01.fwd.raises-without-grad:{op}", e), f"{type(e).__name__}: {e}")
    if P.status == "ok" and P.s_fwd:
        res.nontrivial = P.out_numel >= 2 and pb.nontrivial_config(case)
        if op not in pb.ONE:
            res.stat(f"s_fwd[{op}]", P.s_fwd[0])
    return res


CHECK = Check(
    id="C01",
    parts=[Part("functional", run, strategy=strategy, budget={"quick": 6000, "thorough": 400000})],
    rule=("Hypothesis draws (op of the 16 public functions, shapes with 0-3 leading batch dims, dtype, every hyper-parameter, "
          "constraint name, value profile, two data seeds; 15% of eligible cases set one unsupported argument). Oracle: PyTorch "
          "reference op on identical tensors, least-squares scalar fit. Non-trivial = reference output has >= 2 elements and the "
          "configuration has a leading batch dim > 1 or a non-default hyper-parameter / dtype / constraint; unsupported-arg cases "
          "count when the call is rejected. Distinct = distinct case descriptors."),
    assumptions=["PyTorch reference ops (torch 2.14 CPU) are the trusted base", "tolerances per dtype as in DESIGN.md section 3",
                 "rms_norm: float32 tolerance (denominator computed in float32 by design)",
                 "values within 1e-3..1e3 magnitude profiles; magnitudes near the dtype overflow threshold are not generated",
                 "conv1d not probed in float16 (PyTorch's own CPU kernel crashes)"],
    shards={"quick": 8, "thorough": 14},
    time_budget={"quick": 240.0, "thorough": 2400.0},
)

if __name__ == "__main__":
    main(CHECK)
