"""C08 - modules equal their functional form, honour every option, start unit-scaled, carry the right tags."""
from __future__ import annotations

import collections
import math

from vlib import env  # noqa: F401
import einops
import torch
import torch.nn.functional as F
from hypothesis import strategies as st
from torch import nn

import unit_scaling as uu
import unit_scaling.functional as U
from unit_scaling.parameter import has_parameter_data
from vlib import probes as pb
from vlib.runner import CaseResult, Check, Part, exc_bucket, main

D = torch.float64
BIN = [None, "gmean", "hmean", "amean", "to_output_scale", "to_grad_input_scale"]
mults = st.sampled_from([1.0, 0.25, 4.0]) | st.floats(math.log(1 / 16), math.log(16)).map(lambda v: round(math.exp(v), 6))
leads = st.lists(st.integers(1, 3), min_size=0, max_size=2)
seeds = st.integers(0, 10**6)

CLASSES = ["GELU", "SiLU", "Softmax", "Dropout", "Linear", "LinearReadout", "Conv1d", "LayerNorm", "RMSNorm", "Embedding",
           "CrossEntropyLoss", "MLP", "MHSA", "TransformerLayer", "TransformerDecoder"]


@st.composite
def cases(draw, tier):
    cls = draw(st.sampled_from(CLASSES))
    c = dict(cls=cls, train=draw(st.booleans()), seed=draw(seeds), lead=draw(leads), dtype=draw(st.sampled_from(["float64", "float64", "float32"])))
    if cls == "GELU":
        c.update(mult=draw(mults), constraint=draw(st.sampled_from(BIN)), approximate=draw(st.sampled_from(["none", "tanh"])), n=draw(st.integers(1, 8)))
    elif cls == "SiLU":
        c.update(mult=draw(mults), constraint=draw(st.sampled_from(BIN)), n=draw(st.integers(1, 8)))
    elif cls == "Softmax":
        n = draw(st.integers(1, 8))
        c.update(mult=draw(mults), constraint=draw(st.sampled_from(BIN)), n=n, dim=draw(st.integers(-len(c["lead"]) - 1, len(c["lead"]))))
    elif cls == "Dropout":
        c.update(p=draw(st.sampled_from([0.0, 0.1, 0.5, 0.9])), n=draw(st.integers(2, 8)))
    elif cls in ("Linear", "LinearReadout"):
        c.update(fi=draw(st.integers(1, 9)), fo=draw(st.integers(1, 9)), bias=draw(st.booleans()), constraint=draw(st.sampled_from(BIN + ["default"])),
                 wtype=draw(st.sampled_from(["default", "default", "weight", "output"])))   # the tag given to the weight (a tagging-only option)
    elif cls == "Conv1d":
        g = draw(st.sampled_from([1, 1, 2, 3]))
        k = draw(st.integers(1, 4)); d = draw(st.integers(1, 3))
        pm = draw(st.sampled_from(["zeros", "zeros", "reflect", "replicate", "circular"]))
        p = draw(st.integers(0, 3))
        L = d * (k - 1) + 1 + draw(st.integers(0, 8))
        if pm != "zeros":
            L = max(L, p + 1)  # reflect needs padding < length
        c.update(cin=g * draw(st.integers(1, 3)), cout=g * draw(st.integers(1, 3)), k=k, stride=draw(st.integers(1, 3)), padding=p, dilation=d,
                 groups=g, bias=draw(st.booleans()), padding_mode=pm, constraint=draw(st.sampled_from(BIN + ["default"])), L=L,
                 batch=draw(st.sampled_from([None, 1, 2])))
    elif cls in ("LayerNorm", "RMSNorm"):
        c.update(ns=[draw(st.integers(2, 6)) for _ in range(draw(st.integers(1, 2)))], eps=draw(st.sampled_from([1e-5, 1e-8, 1e-2, 0.0])),
                 affine=draw(st.booleans()), bias=draw(st.booleans()), int_shape=draw(st.booleans()))
    elif cls == "Embedding":
        V = draw(st.integers(2, 10))
        c.update(V=V, dim=draw(st.integers(1, 6)), padding_idx=draw(st.sampled_from([None, None, 0, -1, V - 1])),
                 max_norm=draw(st.sampled_from([None, None, 1.0, 0.5])), norm_type=draw(st.sampled_from([2.0, 1.0])), n=draw(st.integers(1, 5)))
    elif cls == "CrossEntropyLoss":
        V = draw(st.integers(2, 9))
        c.update(V=V, B=draw(st.one_of(st.none(), st.integers(1, 6))), mult=draw(mults), reduction=draw(st.sampled_from(["mean", "sum"])),
                 ignore_index=draw(st.sampled_from([-100, -1, 0, V - 1])), ign_frac=draw(st.sampled_from([0.0, 0.3])))
    elif cls == "MLP":
        c.update(hidden=draw(st.integers(1, 6)), expansion=draw(st.sampled_from([4, 1, 2, 3])))
    elif cls == "MHSA":
        heads = draw(st.sampled_from([1, 2, 3]))
        c.update(heads=heads, hidden=heads * draw(st.integers(1, 4)), causal=draw(st.booleans()), dropout_p=draw(st.sampled_from([0.0, 0.0, 0.2])),
                 mult=draw(mults), b=draw(st.integers(1, 3)), s=draw(st.integers(2, 5)))
    elif cls == "TransformerLayer":
        heads = draw(st.sampled_from([1, 2]))
        c.update(heads=heads, hidden=heads * draw(st.integers(1, 4)), causal=draw(st.booleans()), dropout_p=draw(st.sampled_from([0.0, 0.0, 0.2])),
                 mhsa_tau=draw(st.sampled_from([0.5, 1.0, 0.1, 2.0])), mlp_tau=draw(st.sampled_from([0.5, 1.0, 0.3])), b=draw(st.integers(1, 2)), s=draw(st.integers(2, 5)))
    elif cls == "TransformerDecoder":
        heads = draw(st.sampled_from([1, 2]))
        c.update(heads=heads, hidden=heads * draw(st.integers(1, 3)), vocab=draw(st.integers(2, 9)), layers=draw(st.integers(1, 3)),
                 dropout_p=draw(st.sampled_from([0.0, 0.0, 0.2])), b=draw(st.integers(1, 2)), s=draw(st.integers(2, 5)))
    return c


# documented constructor signatures of the pinned tree (parameter order and defaults), written down here - NOT read from the library -
# so that the all-positional spelling below keeps meaning "the documented order" whatever the library under test declares
SIGS = {
    "GELU": [("mult", 1.0), ("constraint", "to_output_scale"), ("approximate", "none")],
    "SiLU": [("mult", 1.0), ("constraint", "to_output_scale"), ("inplace", False)],
    "Softmax": [("dim", None), ("mult", 1.0), ("constraint", "to_output_scale")],
    "Dropout": [("p", 0.5), ("inplace", False)],
    "Linear": [("in_features", None), ("out_features", None), ("bias", False), ("device", None), ("dtype", None), ("constraint", "to_output_scale"),
               ("weight_mup_type", "weight")],
    "LinearReadout": [("in_features", None), ("out_features", None), ("bias", False), ("device", None), ("dtype", None), ("constraint", None),
                      ("weight_mup_type", "output")],
    "Conv1d": [("in_channels", None), ("out_channels", None), ("kernel_size", None), ("stride", 1), ("padding", 0), ("dilation", 1), ("groups", 1),
               ("bias", False), ("padding_mode", "zeros"), ("device", None), ("dtype", None), ("constraint", "to_output_scale"), ("weight_mup_type", "weight")],
    "LayerNorm": [("normalized_shape", None), ("eps", 1e-5), ("elementwise_affine", False), ("bias", True), ("device", None), ("dtype", None)],
    "RMSNorm": [("normalized_shape", None), ("eps", 1e-5), ("elementwise_affine", False)],
    "Embedding": [("num_embeddings", None), ("embedding_dim", None), ("padding_idx", None), ("max_norm", None), ("norm_type", 2.0),
                  ("scale_grad_by_freq", False), ("sparse", False), ("_weight", None), ("_freeze", False), ("device", None), ("dtype", None)],
    "CrossEntropyLoss": [("mult", 1.0), ("weight", None), ("size_average", None), ("ignore_index", -100), ("reduce", None), ("reduction", "mean"),
                         ("label_smoothing", 0.0)],
    "MLP": [("hidden_size", None), ("expansion_factor", 4)],
    "MHSA": [("hidden_size", None), ("heads", None), ("is_causal", None), ("dropout_p", 0.0), ("mult", 1.0)],
    "TransformerLayer": [("hidden_size", None), ("heads", None), ("mhsa_tau", None), ("mlp_tau", None), ("is_causal", None), ("dropout_p", 0.0)],
    "TransformerDecoder": [("hidden_size", None), ("vocab_size", None), ("layers", None), ("heads", None), ("dropout_p", 0.0)],
}


def make(c, name, *args, **kw):
    """construct uu.<name>: as written (leading positional + keywords), or - for a third of the cases - with every argument up to
    the last one given passed positionally in the documented order"""
    K = getattr(uu, name)
    if c["seed"] % 3 != 1:
        return K(*args, **kw)
    sig = SIGS[name]
    given = dict(zip([n for n, _ in sig], args))
    given.update(kw)
    last = max(i for i, (n, _) in enumerate(sig) if n in given)
    return K(*[given.get(n, d) for n, d in sig[: last + 1]])


def ckw(c):
    return {} if c.get("constraint", "default") == "default" else dict(constraint=c["constraint"])


def effective_constraint(c, default):
    return default if c.get("constraint", "default") == "default" else c["constraint"]


def rearr_qkv(t, heads):
    return einops.rearrange(t, "b s (z h d) -> z b h s d", h=heads, z=3)


def f_mlp(m, x):
    z = U.silu_glu(U.linear(x, m.linear_1.weight, None, None), U.linear(x, m.linear_gate.weight, None, None))
    return U.linear(z, m.linear_2.weight, None, None)


def f_mhsa(m, x, heads, causal, p, mult):
    qkv = U.linear(x, m.linear_qkv.weight, None, "to_output_scale")
    q, k, v = rearr_qkv(qkv, heads)
    o = U.scaled_dot_product_attention(q, k, v, dropout_p=p, is_causal=causal, mult=mult)
    o = einops.rearrange(o, "b h s d -> b s (h d)")
    return U.linear(o, m.linear_o.weight, None, "to_output_scale")


def f_layer(m, x, heads, causal, p, training, mhsa_tau, mlp_tau):
    hidden = x.shape[-1]
    r, s = U.residual_split(x, tau=mhsa_tau)
    r = U.rms_norm(r, (hidden,), None, 1e-5)
    r = f_mhsa(m.mhsa, r, heads, causal, p, 1.0)
    r = U.dropout(r, p, training)
    x = U.residual_add(r, s, tau=mhsa_tau)
    r, s = U.residual_split(x, tau=mlp_tau)
    r = U.rms_norm(r, (hidden,), None, 1e-5)
    r = f_mlp(m.mlp, r)
    r = U.dropout(r, p, training)
    return U.residual_add(r, s, tau=mlp_tau)


def build(c):
    """returns (module, inputs tuple, functional-form callable(module, *inputs), twin callable(module,*inputs) or None, exact_one)"""
    cls = c["cls"]
    D = torch.float64 if c.get("dtype", "float64") == "float64" else torch.float32  # noqa: N806  (module / input dtype of this case)
    g = torch.Generator().manual_seed(c["seed"])
    R = lambda shape: torch.randn(shape, generator=g, dtype=D)  # noqa: E731
    twin = None
    one = False
    if cls == "GELU":
        m = make(c, "GELU", mult=c["mult"], constraint=c["constraint"], approximate=c["approximate"])
        x = (R(c["lead"] + [c["n"]]),)
        fn = lambda m, x: U.gelu(x, mult=c["mult"], approximate=c["approximate"], constraint=c["constraint"])  # noqa: E731
        tw = nn.GELU(approximate=c["approximate"])
        twin = lambda m, x: tw(x * c["mult"]) / c["mult"]  # noqa: E731
    elif cls == "SiLU":
        m = make(c, "SiLU", mult=c["mult"], constraint=c["constraint"])
        x = (R(c["lead"] + [c["n"]]),)
        fn = lambda m, x: U.silu(x, mult=c["mult"], constraint=c["constraint"])  # noqa: E731
        tw = nn.SiLU()
        twin = lambda m, x: tw(x * c["mult"]) / c["mult"]  # noqa: E731
    elif cls == "Softmax":
        m = make(c, "Softmax", dim=c["dim"], mult=c["mult"], constraint=c["constraint"])
        x = (R(c["lead"] + [c["n"]]),)
        fn = lambda m, x: U.softmax(x, dim=c["dim"], mult=c["mult"], constraint=c["constraint"])  # noqa: E731
        tw = nn.Softmax(dim=c["dim"])
        twin = lambda m, x: tw(x * c["mult"])  # noqa: E731
    elif cls == "Dropout":
        m = make(c, "Dropout", p=c["p"])
        x = (R(c["lead"] + [c["n"]]),)
        fn = lambda m, x: U.dropout(x, c["p"], c["train"])  # noqa: E731
        tw = nn.Dropout(p=c["p"])
        tw.train(c["train"])
        twin = lambda m, x: tw(x)  # noqa: E731
    elif cls in ("Linear", "LinearReadout"):
        K = uu.Linear if cls == "Linear" else uu.LinearReadout
        wkw = {} if c.get("wtype", "default") == "default" else dict(weight_mup_type=c["wtype"])
        m = make(c, cls, c["fi"], c["fo"], bias=c["bias"], dtype=D, **ckw(c), **wkw)
        want_tag = ("weight" if cls == "Linear" else "output") if not wkw else c["wtype"]
        if getattr(m.weight, "mup_type", None) != want_tag:
            raise AssertionError(f"C08-tag: weight tagged {getattr(m.weight, 'mup_type', None)!r}, expected {want_tag!r}")
        if c["bias"]:
            with torch.no_grad():
                m.bias.copy_(R([c["fo"]]))
        x = (R(c["lead"] + [c["fi"]]),)
        con = effective_constraint(c, "to_output_scale" if cls == "Linear" else None)
        uf = U.linear if cls == "Linear" else U.linear_readout
        fn = lambda m, x: uf(x, m.weight, m.bias, con)  # noqa: E731
        tw = nn.Linear(c["fi"], c["fo"], bias=c["bias"], dtype=D)
        twin = lambda m, x: (tw.load_state_dict(m.state_dict()), tw(x))[1]  # noqa: E731
        twin.module = tw
    elif cls == "Conv1d":
        m = make(c, "Conv1d", c["cin"], c["cout"], c["k"], stride=c["stride"], padding=c["padding"], dilation=c["dilation"], groups=c["groups"],
                 bias=c["bias"], padding_mode=c["padding_mode"], dtype=D, **ckw(c))
        if c["bias"]:
            with torch.no_grad():
                m.bias.copy_(R([c["cout"]]))
        x = (R(([] if c["batch"] is None else [c["batch"]]) + [c["cin"], c["L"]]),)
        con = effective_constraint(c, "to_output_scale")

        def fn(m, x):
            if c["padding_mode"] == "zeros":
                return U.conv1d(x, m.weight, m.bias, c["stride"], c["padding"], c["dilation"], c["groups"], constraint=con)
            xp = F.pad(x, (c["padding"], c["padding"]), mode=c["padding_mode"])
            return U.conv1d(xp, m.weight, m.bias, c["stride"], 0, c["dilation"], c["groups"], constraint=con)
        tw = nn.Conv1d(c["cin"], c["cout"], c["k"], stride=c["stride"], padding=c["padding"], dilation=c["dilation"], groups=c["groups"],
                       bias=c["bias"], padding_mode=c["padding_mode"], dtype=D)
        twin = lambda m, x: (tw.load_state_dict(m.state_dict()), tw(x))[1]  # noqa: E731
        twin.module = tw
    elif cls == "LayerNorm":
        ns = c["ns"][0] if (c["int_shape"] and len(c["ns"]) == 1) else c["ns"]
        m = make(c, "LayerNorm", ns, eps=c["eps"], elementwise_affine=c["affine"], bias=c["bias"], dtype=D)
        if c["affine"]:
            with torch.no_grad():
                m.weight.copy_(R(c["ns"]))
                if m.bias is not None:
                    m.bias.copy_(R(c["ns"]))
        x = (R(c["lead"] + c["ns"]),)
        fn = lambda m, x: U.layer_norm(x, tuple(c["ns"]), m.weight, m.bias, c["eps"])  # noqa: E731
        tw = nn.LayerNorm(ns, eps=c["eps"], elementwise_affine=c["affine"], bias=c["bias"], dtype=D)
        twin = lambda m, x: (tw.load_state_dict(m.state_dict()), tw(x))[1]  # noqa: E731
        twin.module = tw
        one = True
    elif cls == "RMSNorm":
        ns = c["ns"][0] if (c["int_shape"] and len(c["ns"]) == 1) else tuple(c["ns"])
        m = make(c, "RMSNorm", ns, eps=c["eps"], elementwise_affine=c["affine"]).to(D)
        if c["affine"]:
            with torch.no_grad():
                m.weight.copy_(R(c["ns"]))
        x = (R(c["lead"] + c["ns"]),)
        fn = lambda m, x: U.rms_norm(x, tuple(c["ns"]), m.weight, c["eps"])  # noqa: E731
        tw = nn.RMSNorm(c["ns"], eps=c["eps"], elementwise_affine=c["affine"], dtype=D)
        twin = lambda m, x: (tw.load_state_dict(m.state_dict()), tw(x))[1]  # noqa: E731
        twin.module = tw
        one = True
    elif cls == "Embedding":
        m = make(c, "Embedding", c["V"], c["dim"], padding_idx=c["padding_idx"], max_norm=c["max_norm"], norm_type=c["norm_type"], dtype=D)
        idx = torch.randint(0, c["V"], c["lead"] + [c["n"]], generator=g)
        x = (idx,)
        fn = lambda m, i: U.embedding(i, m.weight, c["padding_idx"] if c["padding_idx"] is None or c["padding_idx"] >= 0 else c["V"] + c["padding_idx"],  # noqa: E731
                                      c["max_norm"], c["norm_type"])
        tw = nn.Embedding(c["V"], c["dim"], padding_idx=c["padding_idx"], max_norm=c["max_norm"], norm_type=c["norm_type"], dtype=D)
        twin = lambda m, i: (tw.load_state_dict(m.state_dict()), tw(i))[1]  # noqa: E731
        twin.module = tw
        one = True
    elif cls == "CrossEntropyLoss":
        m = make(c, "CrossEntropyLoss", mult=c["mult"], ignore_index=c["ignore_index"], reduction=c["reduction"])
        V, B = c["V"], c["B"]
        logits = R([V] if B is None else [B, V])
        t = torch.randint(0, V, () if B is None else (B,), generator=g)
        if B is not None and c["ign_frac"] > 0:
            t = torch.where(torch.rand((B,), generator=g) < c["ign_frac"], torch.tensor(c["ignore_index"]), t)
        x = (logits, t)
        fn = lambda m, a, b: U.cross_entropy(a, b, ignore_index=c["ignore_index"], reduction=c["reduction"], mult=c["mult"])  # noqa: E731
        tw = nn.CrossEntropyLoss(ignore_index=c["ignore_index"], reduction=c["reduction"])
        twin = lambda m, a, b: tw(a * c["mult"], b)  # noqa: E731
        twin.sum_reduced = nn.CrossEntropyLoss(ignore_index=c["ignore_index"], reduction="sum")
        one = True
    elif cls == "MLP":
        m = make(c, "MLP", c["hidden"], expansion_factor=c["expansion"]).to(D)
        x = (R(c["lead"] + [c["hidden"]]),)
        fn = f_mlp
    elif cls == "MHSA":
        m = make(c, "MHSA", c["hidden"], c["heads"], is_causal=c["causal"], dropout_p=c["dropout_p"], mult=c["mult"]).to(D)
        x = (R([c["b"], c["s"], c["hidden"]]),)
        fn = lambda m, x: f_mhsa(m, x, c["heads"], c["causal"], c["dropout_p"], c["mult"])  # noqa: E731
    elif cls == "TransformerLayer":
        m = make(c, "TransformerLayer", c["hidden"], c["heads"], mhsa_tau=c["mhsa_tau"], mlp_tau=c["mlp_tau"], is_causal=c["causal"], dropout_p=c["dropout_p"]).to(D)
        x = (R([c["b"], c["s"], c["hidden"]]),)
        fn = lambda m, x: f_layer(m, x, c["heads"], c["causal"], c["dropout_p"], c["train"], c["mhsa_tau"], c["mlp_tau"])  # noqa: E731
    elif cls == "TransformerDecoder":
        m = make(c, "TransformerDecoder", c["hidden"], c["vocab"], c["layers"], c["heads"], dropout_p=c["dropout_p"]).to(D)
        x = (torch.randint(0, c["vocab"], [c["b"], c["s"]], generator=g),)

        def fn(m, ids):
            h = U.embedding(ids, m.embedding.weight)
            for lay in m.layers:
                h = f_layer(lay, h, c["heads"], True, c["dropout_p"], c["train"], lay.mhsa_tau, lay.mlp_tau)
            h = U.rms_norm(h, (c["hidden"],), None, 1e-5)
            return U.linear_readout(h, m.projection.weight, None, None)
    else:
        raise KeyError(cls)
    m.train(c["train"])
    return m, x, fn, twin, one


def same(a, b):
    """equality to float64 rounding (1e-12 of the largest element; observed: bit-equal) that treats NaN == NaN (a loss whose
    targets are all ignored is NaN on both sides).  Not bitwise on purpose: a refactoring of a module's forward that keeps the
    function but reorders float operations must not raise an alarm; any change of scale, option or structure is >> 1e-12."""
    if a.shape != b.shape or not torch.equal(a.isnan(), b.isnan()):
        return False
    a0, b0 = a.nan_to_num(0.0), b.nan_to_num(0.0)
    rel = 1e-12 if a.dtype == torch.float64 else 4e-6   # float32 modules: the same operation sequence, rounding-level agreement
    tol = rel * max(1e-300, float(b0.abs().max())) if b0.numel() else 0.0
    return bool(((a0 - b0).abs() <= tol).all())


def grads_of(y, tensors, up):
    return torch.autograd.grad(y, tensors, up, allow_unused=True)


def run(c) -> CaseResult:
    res = CaseResult()
    cls = c["cls"]
    res.labels += [f"cls={cls}", "train" if c["train"] else "eval"]
    try:
        m, xs, fn, twin, one = build(c)
    except Exception as e:  # noqa: BLE001
        res.fail(exc_bucket(f"C08.construct.raises:{cls}", e), f"{type(e).__name__}: {e}")
        return res
    params = list(m.parameters())
    # a module fed by data: in a quarter of the cases the inputs do not require a gradient (only the parameters' gradients are compared)
    rg = c["seed"] % 4 != 0 or not params
    if not rg:
        res.labels.append("inputs-without-grad")
    fl = [x.clone().requires_grad_(rg) if x.is_floating_point() else x for x in xs]
    diff = [t for t in fl if t.is_floating_point() and t.requires_grad] + params
    try:
        torch.manual_seed(c["seed"])
        y1 = m(*fl)
        up = torch.randn(y1.shape, generator=torch.Generator().manual_seed(c["seed"] + 5), dtype=y1.dtype)
        g1 = grads_of(y1, diff, up)
    except Exception as e:  # noqa: BLE001
        res.fail(exc_bucket(f"C08.forward.raises:{cls}" + (f":padding_mode={c['padding_mode']}" if cls == "Conv1d" and c["padding_mode"] != "zeros" else ""), e),
                 f"{type(e).__name__}: {e}")
        return res
    # (a) functional form on the module's own parameters: bitwise
    torch.manual_seed(c["seed"])
    y2 = fn(m, *fl)
    if y1.shape != y2.shape:
        res.fail(f"C08.functional-form.shape:{cls}" + (f":padding_mode={c['padding_mode']}" if cls == "Conv1d" else ""),
                 f"module output {tuple(y1.shape)} vs functional form {tuple(y2.shape)}")
        return res
    g2 = grads_of(y2, diff, up)
    feature = ""
    if cls == "Conv1d":
        feature = f":constraint={c.get('constraint')}" if not same(y1, y2) and c["padding_mode"] == "zeros" else f":padding_mode={c['padding_mode']}"
    if not same(y1, y2):
        res.fail(f"C08.functional-form.value:{cls}{feature}", f"module output differs from the functional form with the configured options (max abs diff {(y1 - y2).abs().max().item():.3g})")
    else:
        for i, (a, b) in enumerate(zip(g1, g2)):
            if (a is None) != (b is None) or (a is not None and not same(a, b)):
                which = "input" if i < len(diff) - len(params) else "param"
                res.fail(f"C08.functional-form.grad:{cls}:{which}" + (f":constraint={c.get('constraint')}" if cls == "Conv1d" else ""),
                         f"gradient {i} of the module differs from the functional form's")
                break
    # (a') a second call of the same module instance with another batch shape: no state may carry over from the first call
    if all(x.is_floating_point() for x in xs) and len(xs) == 1 and cls not in ("Softmax",):
        x0 = xs[0]
        g2 = torch.Generator().manual_seed(c["seed"] + 77)
        shape2 = ([2] + list(x0.shape)) if cls not in ("Conv1d", "MHSA", "TransformerLayer") else ([x0.shape[0] + 1] + list(x0.shape[1:]) if x0.dim() == 3 else list(x0.shape))
        xb = torch.randn(shape2, generator=g2, dtype=x0.dtype).requires_grad_()
        try:
            torch.manual_seed(c["seed"] + 1)
            yb1 = m(xb)
            torch.manual_seed(c["seed"] + 1)
            yb2 = fn(m, xb)
            upb = torch.randn(yb1.shape, generator=g2, dtype=yb1.dtype)
            gb1 = grads_of(yb1, [xb] + params, upb)
            gb2 = grads_of(yb2, [xb] + params, upb)
            if not same(yb1, yb2) or not all((a is None) == (b is None) and (a is None or same(a, b)) for a, b in zip(gb1, gb2)):
                res.fail(f"C08.second-call:{cls}", f"second call of the same module with input shape {shape2} differs from the functional form (state carried over from the first call?)")
            res.labels.append("second-call")
        except Exception as e:  # noqa: BLE001
            res.fail(exc_bucket(f"C08.second-call.raises:{cls}", e), f"{type(e).__name__}: {e}")
    # (b0) the options decide which parameters exist: same parameter names as the torch.nn counterpart built with the same options
    tw_mod = getattr(twin, "module", None) if twin is not None else None
    if tw_mod is not None:
        mine, theirs = sorted(n for n, _ in m.named_parameters()), sorted(n for n, _ in tw_mod.named_parameters())
        if mine != theirs:
            res.fail(f"C08.option.parameter-set:{cls}", f"parameters {mine} but torch.nn.{type(tw_mod).__name__} with the same options has {theirs}")
    # (b) torch.nn twin sharing the state_dict
    if twin is not None:
        fl2 = [x.clone().requires_grad_() if x.is_floating_point() else x for x in xs]
        try:
            torch.manual_seed(c["seed"])
            yt = twin(m, *fl2)
        except Exception as e:  # noqa: BLE001
            yt = None
            res.labels.append("twin-unsupported")
        if yt is not None:
            if yt.shape != y1.shape:
                res.fail(f"C08.twin.shape:{cls}" + (f":padding_mode={c['padding_mode']}" if cls == "Conv1d" else ""),
                         f"module output {tuple(y1.shape)} vs torch.nn twin {tuple(yt.shape)}")
            elif bool(torch.isfinite(yt).all()):
                f = pb.fit(y1, yt)
                f32 = c.get("dtype") == "float32"
                tol = 1e-6 if cls == "RMSNorm" else (2e-5 if f32 else 1e-10)
                if f is not None:
                    if not f[1] <= tol or not f[0] > 0:
                        res.fail(f"C08.twin.value:{cls}", f"not a positive scalar multiple of the torch.nn twin: s={f[0]!r} residual={f[1]:.3g}")
                    elif one and not abs(f[0] - 1) <= max(tol, 1e-5 if f32 else 1e-12):
                        res.fail(f"C08.twin.scalar-not-1:{cls}", f"s={f[0]!r}")
                    # gradients wrt inputs (C02 fit), same upstream; sum-reduced reference for the mean-reduced loss
                    yt_g = yt
                    if cls == "CrossEntropyLoss" and c["reduction"] == "mean":
                        yt_g = twin.sum_reduced(fl2[0] * c["mult"], fl2[1])
                    tin = [t for t in fl2 if t.is_floating_point()]
                    tparams = list(getattr(twin, "module", nn.Module()).parameters())
                    gt = torch.autograd.grad(yt_g, tin + tparams, up, allow_unused=True)
                    names = [n for n, _ in m.named_parameters()]
                    tnames = [n for n, _ in getattr(twin, "module", nn.Module()).named_parameters()]
                    lib = dict(zip(([f"input{i}" for i in range(len(tin))] if rg else []) + names, g1))
                    ref = dict(zip([f"input{i}" for i in range(len(tin))] + tnames, gt))
                    for k, a in lib.items():
                        b = ref.get(k)
                        if a is None or b is None:
                            continue
                        ff = pb.fit(a, b)
                        if ff is None:
                            continue
                        gt_tol = 1e-4 if cls == "RMSNorm" else (2e-4 if f32 else 1e-9)
                        if cls == "RMSNorm" and k.startswith("input"):
                            # float32 denominator (by design): the library's error is ~1e-7 x |g| |w| / rms(x); when the true
                            # gradient is a small remainder of that (upstream nearly parallel to x) nothing can be fitted (as in C02)
                            x64 = fl[0].detach().double()
                            dims_ = tuple(range(-len(c["ns"]), 0))
                            min_rms = x64.pow(2).mean(dims_).sqrt().min().item()
                            wmax = m.weight.detach().abs().max().item() if getattr(m, "weight", None) is not None else 1.0
                            nat = up.abs().max().item() * wmax / max(min_rms, 1e-300)
                            if b.detach().double().abs().max().item() < max(1e-2, 4 * 1e-7 / gt_tol) * nat:
                                continue
                        if not ff[1] <= gt_tol or not ff[0] > 0:
                            res.fail(f"C08.twin.grad:{cls}:{k.split('.')[-1]}", f"gradient wrt {k} is not a positive multiple of the twin's: s={ff[0]!r} residual={ff[1]:.3g}")
    res.nontrivial = True
    return res


# ------------------------------------------------------------------ construction: unsupported options

UNSUPPORTED = [("SiLU", dict(inplace=True)), ("Dropout", dict(inplace=True)), ("Embedding", dict(scale_grad_by_freq=True)),
               ("Embedding", dict(sparse=True)), ("CrossEntropyLoss", dict(weight="ones")), ("CrossEntropyLoss", dict(size_average=True)),
               ("CrossEntropyLoss", dict(size_average=False)), ("CrossEntropyLoss", dict(reduce=True)), ("CrossEntropyLoss", dict(reduce=False)),
               ("CrossEntropyLoss", dict(label_smoothing=0.1))]


@st.composite
def unsup_cases(draw, tier):
    i = draw(st.integers(0, len(UNSUPPORTED) - 1))
    return dict(index=i, positional=draw(st.booleans()))


def run_unsup(c) -> CaseResult:
    res = CaseResult()
    cls, kw = UNSUPPORTED[c["index"]]
    kw = dict(kw)
    if kw.get("weight") == "ones":
        kw["weight"] = torch.ones(3)
    name = next(iter(kw))
    try:
        if cls == "SiLU":
            uu.SiLU(1.0, "to_output_scale", True) if c["positional"] else uu.SiLU(**kw)
        elif cls == "Dropout":
            uu.Dropout(0.5, True) if c["positional"] else uu.Dropout(**kw)
        elif cls == "Embedding":
            uu.Embedding(4, 3, **kw)
        else:
            uu.CrossEntropyLoss(**kw)
    except Exception:  # noqa: BLE001
        res.nontrivial = True
        res.labels.append(f"rejected:{cls}.{name}")
        return res
    res.fail(f"C08.unsupported-option-accepted:{cls}:{name}", f"uu.{cls}({name}={kw[name]!r}) constructed silently")
    return res


# ------------------------------------------------------------------ init statistics, tags, depth containers


@st.composite
def init_cases(draw, tier):
    kind = draw(st.sampled_from(["Linear", "LinearReadout", "Conv1d", "Embedding", "LayerNorm", "RMSNorm", "MLP", "MHSA", "TransformerLayer",
                                 "TransformerDecoder", "DepthSequential", "DepthModuleList", "container-untagged"]))
    return dict(kind=kind, a=draw(st.integers(1, 96)), b=draw(st.integers(1, 96)), k=draw(st.integers(1, 5)), bias=draw(st.booleans()),
                n=draw(st.integers(1, 5)), seed=draw(seeds), padding_idx=draw(st.sampled_from([None, 0, -1])), heads=draw(st.sampled_from([1, 2, 4])),
                inner=draw(st.lists(st.sampled_from(["Linear", "LinearBias", "LayerNorm", "RMSNorm", "MLP", "Embedding", "Conv1d"]), min_size=1, max_size=4)))


def stat_check(res, name, w, exclude_row=None):
    w = w.detach().double()
    if exclude_row is not None:
        mask = torch.ones(w.shape[0], dtype=torch.bool)
        mask[exclude_row] = False
        w = w[mask]
    n = w.numel()
    if n < 256:
        return
    mean, std = w.mean().item(), w.std().item()
    if not abs(mean) < 7 / math.sqrt(n):
        res.fail(f"C08.init.mean:{name}", f"|mean|={abs(mean):.4g} >= 7/sqrt({n})")
    if not abs(std - 1) < 7 / math.sqrt(2 * n):
        res.fail(f"C08.init.std:{name}", f"std={std:.4g}, |std-1| >= 7/sqrt(2*{n})")
    res.labels.append("init-stats")


def expect_tags(res, m, table, depth, ctx):
    for name, p in m.named_parameters():
        if not has_parameter_data(p):
            res.fail(f"C08.tags.untagged:{ctx}", f"parameter {name} carries no u-muP tag")
            continue
        want = None
        for suffix, tag in table:
            if name.endswith(suffix):
                want = tag
                break
        if want is not None and p.mup_type != want:
            res.fail(f"C08.tags.type:{ctx}:{want}", f"parameter {name} tagged {p.mup_type!r}, expected {want!r}")
        if p.mup_scaling_depth != depth:
            res.fail(f"C08.tags.depth:{ctx}", f"parameter {name} has depth {p.mup_scaling_depth!r}, expected {depth!r}")


def make_inner(kind, h):
    if kind == "Linear":
        return uu.Linear(h, h)
    if kind == "LinearBias":
        return uu.Linear(h, h, bias=True)
    if kind == "LayerNorm":
        return uu.LayerNorm(h, elementwise_affine=True)
    if kind == "RMSNorm":
        return uu.RMSNorm(h, elementwise_affine=True)
    if kind == "MLP":
        return uu.MLP(h)
    if kind == "Embedding":
        return uu.Embedding(5, h)
    if kind == "Conv1d":
        return uu.Conv1d(h, h, 2, bias=True)
    raise KeyError(kind)


GENERIC_TABLE = [("linear_1.weight", "weight"), ("linear_gate.weight", "weight"), ("linear_2.weight", "weight"), ("linear_qkv.weight", "weight"),
                 ("linear_o.weight", "weight"), ("embedding.weight", "weight"), ("projection.weight", "output")]


def run_init(c) -> CaseResult:
    res = CaseResult()
    kind = c["kind"]
    res.labels.append(f"kind={kind}")
    torch.manual_seed(c["seed"])
    try:
        if kind in ("Linear", "LinearReadout"):
            K = uu.Linear if kind == "Linear" else uu.LinearReadout
            m = K(c["a"], c["b"], bias=c["bias"])
            stat_check(res, kind, m.weight)
            if c["bias"] and not bool((m.bias == 0).all()):
                res.fail(f"C08.init.bias-nonzero:{kind}", "")
            expect_tags(res, m, [("weight", "weight" if kind == "Linear" else "output"), ("bias", "bias")], None, kind)
        elif kind == "Conv1d":
            g = 1
            m = uu.Conv1d(c["a"], c["b"], c["k"], bias=c["bias"], groups=g)
            stat_check(res, kind, m.weight)
            if c["bias"] and not bool((m.bias == 0).all()):
                res.fail("C08.init.bias-nonzero:Conv1d", "")
            expect_tags(res, m, [("weight", "weight"), ("bias", "bias")], None, kind)
        elif kind == "Embedding":
            m = uu.Embedding(c["a"] + 1, c["b"], padding_idx=c["padding_idx"])
            pi = c["padding_idx"]
            stat_check(res, kind, m.weight, exclude_row=None if pi is None else pi % (c["a"] + 1))
            expect_tags(res, m, [("weight", "weight")], None, kind)
        elif kind == "LayerNorm":
            m = uu.LayerNorm(c["a"] + 1, elementwise_affine=True, bias=c["bias"])
            if not bool((m.weight == 1).all()) or (m.bias is not None and not bool((m.bias == 0).all())):
                res.fail("C08.init.norm-gain:LayerNorm", "gain != 1 or bias != 0")
            expect_tags(res, m, [("weight", "norm"), ("bias", "bias")], None, kind)
            m0 = uu.LayerNorm(c["a"] + 1)
            if len(list(m0.parameters())) != 0:
                res.fail("C08.init.affine-default:LayerNorm", "default elementwise_affine should be False")
        elif kind == "RMSNorm":
            m = uu.RMSNorm(c["a"] + 1, elementwise_affine=True)
            if not bool((m.weight == 1).all()):
                res.fail("C08.init.norm-gain:RMSNorm", "gain != 1")
            expect_tags(res, m, [("weight", "norm")], None, kind)
        elif kind == "MLP":
            m = uu.MLP(c["a"], expansion_factor=c["k"])
            for n_, p in m.named_parameters():
                stat_check(res, "MLP." + n_.split(".")[0], p)
            expect_tags(res, m, GENERIC_TABLE, None, kind)
            if m.linear_1.weight.shape != (c["a"] * c["k"], c["a"]) or m.linear_2.weight.shape != (c["a"], c["a"] * c["k"]):
                res.fail("C08.option.expansion_factor", f"MLP({c['a']}, expansion_factor={c['k']}) built {tuple(m.linear_1.weight.shape)}")
        elif kind == "MHSA":
            h = c["heads"] * max(1, c["a"] // 8)
            m = uu.MHSA(h, c["heads"], is_causal=True)
            for n_, p in m.named_parameters():
                stat_check(res, "MHSA." + n_.split(".")[0], p)
            expect_tags(res, m, GENERIC_TABLE, None, kind)
        elif kind == "TransformerLayer":
            h = c["heads"] * max(1, c["a"] // 16)
            m = uu.TransformerLayer(h, c["heads"], mhsa_tau=0.5, mlp_tau=0.5, is_causal=True)
            expect_tags(res, m, GENERIC_TABLE, None, kind)
        elif kind == "TransformerDecoder":
            h = c["heads"] * max(1, c["a"] // 16)
            m = uu.TransformerDecoder(h, c["b"] + 1, layers=c["n"], heads=c["heads"])
            stat_check(res, "Decoder.embedding", m.embedding.weight)
            stat_check(res, "Decoder.projection", m.projection.weight)
            expect_tags(res, m.embedding, GENERIC_TABLE, None, "Decoder.embedding")
            expect_tags(res, m.projection, [("weight", "output")], None, "Decoder.projection")
            expect_tags(res, m.layers, GENERIC_TABLE, c["n"], "Decoder.layers")
            if len(m.layers) != c["n"]:
                res.fail("C08.option.layers", f"{len(m.layers)} layers for layers={c['n']}")
        elif kind in ("DepthSequential", "DepthModuleList"):
            h = 1 + c["a"] % 6
            mods = [make_inner(k_, h) for k_ in c["inner"]]
            outside = uu.Linear(h, h, bias=True)
            if c["bias"] and len(mods) >= 1:
                mods = mods + [mods[0]] * (c["k"] % 3)   # a weight-shared instance repeated: depth is still len(container)
            # every documented way of handing the layers to the underlying torch container
            spell = c["k"] % 4
            if kind == "DepthSequential":
                m = uu.DepthSequential(collections.OrderedDict((f"block{i_}", mm) for i_, mm in enumerate(mods))) if spell in (1, 3) else uu.DepthSequential(*mods)
                res.labels.append("DepthSequential(" + ("OrderedDict" if spell in (1, 3) else "*layers") + ")")
            else:
                m = uu.DepthModuleList([mods, tuple(mods), (mm for mm in mods), iter(mods)][spell])
                res.labels.append("DepthModuleList(" + ["list", "tuple", "generator", "iterator"][spell] + ")")
            if len(m) != len(mods):
                raise AssertionError("harness: container length")
            expect_tags(res, m, [], len(mods), kind)
            expect_tags(res, outside, [], None, kind + ".outside")
        else:
            h = 1 + c["a"] % 6
            mods = [make_inner(k_, h) for k_ in c["inner"]]
            mods.insert(c["k"] % (len(mods) + 1), nn.Linear(h, h))
            for K, arg in ((uu.DepthSequential, lambda: uu.DepthSequential(*mods)), (uu.DepthModuleList, lambda: uu.DepthModuleList(mods))):
                for mm in mods:
                    for p in mm.parameters():
                        if has_parameter_data(p):
                            p.mup_scaling_depth = None
                try:
                    arg()
                except ValueError:
                    continue
                except Exception as e:  # noqa: BLE001
                    res.fail(f"C08.container-untagged:{K.__name__}:{type(e).__name__}", f"{type(e).__name__}: {e} (ValueError expected)")
                    continue
                res.fail(f"C08.container-untagged:{K.__name__}:accepted", "container accepted an untagged nn.Linear")
        # two fresh instances with the same arguments own separate storage, and training one leaves later instances unit-scaled
        if kind in ("Linear", "LinearReadout", "Conv1d", "Embedding", "LayerNorm", "RMSNorm", "MLP", "MHSA"):
            mk = {"Linear": lambda: uu.Linear(c["a"], c["b"], bias=True), "LinearReadout": lambda: uu.LinearReadout(c["a"], c["b"], bias=True),
                  "Conv1d": lambda: uu.Conv1d(c["a"], c["b"], c["k"], bias=True), "Embedding": lambda: uu.Embedding(c["a"] + 1, c["b"]),
                  "LayerNorm": lambda: uu.LayerNorm(c["a"] + 1, elementwise_affine=True), "RMSNorm": lambda: uu.RMSNorm(c["a"] + 1, elementwise_affine=True),
                  "MLP": lambda: uu.MLP(max(1, c["a"] // 8)), "MHSA": lambda: uu.MHSA(c["heads"] * 2, c["heads"], is_causal=False)}[kind]
            m1, m2 = mk(), mk()
            ptrs = {p.data_ptr() for p in m1.parameters() if p.numel()}
            if any(p.data_ptr() in ptrs for p in m2.parameters() if p.numel()):
                res.fail(f"C08.instances-share-storage:{kind}", "two freshly constructed instances share parameter storage")
            with torch.no_grad():
                for p in m1.parameters():
                    p.add_(3.0)          # an optimiser step on the first instance ...
            m3 = mk()                    # ... must not show in an instance constructed afterwards
            for n_, p in m3.named_parameters():
                if n_.endswith("bias") and bool((p != 0).any()):
                    res.fail(f"C08.init.bias-nonzero:{kind}", "bias of an instance constructed after another one was updated is not zero")
                if kind in ("LayerNorm", "RMSNorm") and n_.endswith("weight") and bool((p != 1).any()):
                    res.fail(f"C08.init.norm-gain:{kind}", "gain of an instance constructed after another one was updated is not 1")
                if kind not in ("LayerNorm", "RMSNorm") and n_.endswith("weight") and p.numel() >= 256 and abs(p.mean().item()) > 0.5:
                    res.fail(f"C08.init.mean:{kind}", "weights of an instance constructed after another one was updated are not zero-mean")
    except Exception as e:  # noqa: BLE001
        res.fail(exc_bucket(f"C08.init.raises:{kind}", e), f"{type(e).__name__}: {e}")
    res.nontrivial = True
    return res


CHECK = Check(
    id="C08",
    parts=[Part("forms", run, strategy=cases, budget={"quick": 3000, "thorough": 150000}),
           Part("unsupported", run_unsup, strategy=unsup_cases, budget={"quick": 60, "thorough": 1500}),
           Part("init", run_init, strategy=init_cases, budget={"quick": 1000, "thorough": 40000})],
    rule=("forms: Hypothesis over module class x every constructor option (constraint incl. None, mult, approximate, bias, "
          "stride/padding/dilation/groups, padding_mode in {zeros,reflect,replicate,circular}, eps, elementwise_affine, padding_idx, max_norm, "
          "ignore_index, reduction, dropout_p, is_causal, heads, expansion, layers) x train/eval x input shapes (float64). Oracle (a) the "
          "documented functional form evaluated on the module's own parameters, outputs and all gradients equal to 1e-12 (float64; observed bit-equal), also for a second call of the same instance with another batch shape; (b) torch.nn twin with the "
          "same options and load_state_dict: identical shape, one positive scalar (==1 for losses/norms/embedding), gradients likewise. "
          "unsupported: every unsupported constructor option must raise. init: statistics of freshly constructed weights (7-sigma windows, "
          "n >= 256), zero biases, unit gains, tag table, depth == len(container) inside depth containers and None outside, containers "
          "reject untagged parameters. Every generated case is counted non-trivial (each varies at least the seed and one option); distinct = distinct descriptors."),
    assumptions=["einops.rearrange and torch.nn modules are trusted", "7-sigma statistical windows: false-alarm probability ~1e-11 per case",
                 "RMSNorm twin: nn.RMSNorm with float32-level tolerance (library denominator is float32 by design)"],
    shards={"quick": 8, "thorough": 14},
)

if __name__ == "__main__":
    main(CHECK)
