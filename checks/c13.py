"""C13 - nearest-rounding quantisation returns the nearest representable value."""
from __future__ import annotations

import numpy as np

from vlib import env  # noqa: F401  (pins sys.path / threads)
import torch
from hypothesis import strategies as st

from vlib import fporacle as fo
from vlib.runner import CaseResult, Check, Part, exc_bucket, main

from unit_scaling.formats import FPFormat

FORMATS = [(E, M) for E in range(2, 9) for M in range(0, 24)]
DT = {"float64": torch.float64, "float32": torch.float32, "bfloat16": torch.bfloat16, "float16": torch.float16}


def hexs(a, idx):
    return [float(a[i]).hex() for i in idx[:3]]


def block_clauses(res: CaseResult, E: int, M: int, x: np.ndarray, tag: str, use_set: bool) -> int:
    """run quantise on float32 array x and apply every value clause; returns #rounded inputs"""
    fmt = FPFormat(E, M, rounding="nearest")
    xt = torch.from_numpy(x.copy())
    keep = xt.clone()
    try:
        qt = fmt.quantise(xt)
    except Exception as e:  # noqa: BLE001
        res.fail(exc_bucket(f"C13.raises.{tag}", e), f"E{E}M{M}: {type(e).__name__}: {e}")
        return 0
    if not isinstance(qt, torch.Tensor) or qt.shape != xt.shape or qt.dtype != xt.dtype:
        res.fail(f"C13.shape.{tag}", f"E{E}M{M}: result {getattr(qt, 'shape', None)} {getattr(qt, 'dtype', None)}")
        return 0
    if not torch.equal(xt.view(torch.int32), keep.view(torch.int32)):
        res.fail(f"C13.argument-modified.{tag}", f"E{E}M{M}")
    q32 = qt.numpy()
    q = q32.astype(np.float64)
    ax, lo, hi, sp = fo.neighbours(E, M, x)
    if use_set:
        ax2, lo2, hi2 = fo.neighbours_set(E, M, x)
        if not (np.array_equal(lo, lo2) and np.array_equal(hi, hi2)):
            raise AssertionError(f"oracle A/B disagree E{E}M{M}")
    aq = np.abs(q)
    fin = np.isfinite(q)
    if not fin.all():
        i = np.where(~fin)[0]
        res.fail(f"C13.nonfinite.{tag}", f"E{E}M{M} x={hexs(x, i)} -> {hexs(q, i)}")
        return 0
    okn = (aq == lo) | (aq == hi)
    if not okn.all():
        i = np.where(~okn)[0]
        res.fail(f"C13.not-a-neighbour.{tag}", f"E{E}M{M} x={hexs(x, i)} q={hexs(q, i)} lo={hexs(lo, i)} hi={hexs(hi, i)}")
    else:
        dist = np.abs(aq - ax)
        best = np.minimum(ax - lo, hi - ax)
        slack = 2.0 ** (M - 23) * sp
        far = dist > best + slack
        far &= np.isfinite(x)
        if far.any():
            i = np.where(far)[0]
            res.fail(f"C13.not-nearest.{tag}", f"E{E}M{M} x={hexs(x, i)} q={hexs(q, i)} lo={hexs(lo, i)} hi={hexs(hi, i)}")
    sgn = np.signbit(q32) == np.signbit(x)
    if not sgn.all():
        i = np.where(~sgn)[0]
        res.fail(f"C13.sign.{tag}", f"E{E}M{M} x={hexs(x, i)} q={hexs(q, i)}")
    rep = lo == hi
    same = (aq == ax) | ~rep
    if not same.all():
        i = np.where(~same)[0]
        res.fail(f"C13.representable-moved.{tag}", f"E{E}M{M} x={hexs(x, i)} q={hexs(q, i)}")
    # idempotent
    q2 = fmt.quantise(qt.clone()).numpy()
    if not np.array_equal(q2.view(np.int32), q32.view(np.int32)):
        i = np.where(q2.view(np.int32) != q32.view(np.int32))[0]
        res.fail(f"C13.idempotent.{tag}", f"E{E}M{M} q={hexs(q, i)} q(q)={hexs(q2, i)}")
    # odd symmetry
    qn = fmt.quantise(torch.from_numpy(-x)).numpy()
    if not np.array_equal(qn.view(np.int32), (-q32).view(np.int32)):
        i = np.where(qn.view(np.int32) != (-q32).view(np.int32))[0]
        res.fail(f"C13.odd.{tag}", f"E{E}M{M} x={hexs(x, i)} q(-x)={hexs(qn, i)} -q(x)={hexs(-q32, i)}")
    # monotone
    order = np.argsort(x, kind="stable")
    qs = q32[order]
    dec = np.diff(qs) < 0
    if dec.any():
        i = np.where(dec)[0]
        xs = x[order]
        res.fail(f"C13.monotone.{tag}", f"E{E}M{M} x={hexs(xs, i)} x'={hexs(xs, i + 1)} q={hexs(qs, i)} q'={hexs(qs, i + 1)}")
    # saturation
    sat = np.abs(x.astype(np.float64)) >= fo.fmt_max(E, M)
    if sat.any() and not (aq[sat] == fo.fmt_max(E, M)).all():
        i = np.where(sat & (aq != fo.fmt_max(E, M)))[0]
        res.fail(f"C13.saturate.{tag}", f"E{E}M{M} x={hexs(x, i)} q={hexs(q, i)}")
    rounded = int((~rep).sum())
    ties = int(((ax - lo == hi - ax) & ~rep).sum())
    res.labels += ["tie"] * min(ties, 1) + ["subnormal"] * int(((ax < fo.fmt_min_normal(E)) & ~rep).any())
    res.labels += ["saturating"] * int(sat.any()) + ["top-binade"] * int((ax >= fo.fmt_max(E, M) / 2).any())
    return rounded


# ---------------------------------------------------------------- part: values (all formats)


def enum_values(ctx):
    fmts = FORMATS
    for i, (E, M) in enumerate(fmts):
        if i % ctx.nshards == ctx.shard:
            yield dict(E=E, M=M, seed=ctx.seed, mant_per_exp=2**9 if ctx.tier == "quick" else 2**14,
                       n_rep=4000 if ctx.tier == "quick" else 40000)


def run_values(case) -> CaseResult:
    E, M = case["E"], case["M"]
    res = CaseResult()
    rng = np.random.default_rng(case["seed"] * 1000 + E * 32 + M)
    x = fo.structured_inputs(E, M, rng, case["n_rep"], case["mant_per_exp"])
    if E == 8:
        x = x[np.isfinite(x)]
    fmt = FPFormat(E, M, rounding="nearest")
    # format properties vs. extremes of the enumerated set (closed forms of oracle A)
    for name, want in [("max_absolute_value", fo.fmt_max(E, M)), ("min_absolute_normal", fo.fmt_min_normal(E)),
                       ("min_absolute_subnormal", fo.fmt_min_subnormal(E, M))]:
        try:
            got = getattr(fmt, name)
            if float(got) != want:
                res.fail(f"C13.property.{name}", f"E{E}M{M}: {got!r} != {want!r}")
        except Exception as e:  # noqa: BLE001
            res.fail(exc_bucket(f"C13.property.{name}", e), f"E{E}M{M}: {e}")
    if fo.n_values(E, M) <= 2**16:
        v = fo.value_set(E, M)
        if float(fmt.max_absolute_value) != v[-1] or fmt.min_absolute_subnormal != v[1] or fmt.min_absolute_normal != v[2**M]:
            res.fail("C13.property.valueset", f"E{E}M{M}")
    n = block_clauses(res, E, M, x, "values", use_set=fo.n_values(E, M) <= 2**20)
    res.evals = int(x.shape[0])
    res.nontrivial_n = n
    res.labels.append(f"E{E}")
    res.sample = dict(format=f"E{E}M{M}", inputs=int(x.shape[0]), rounded=n,
                      examples=[float(v).hex() for v in x[:: max(1, len(x) // 4)][:4]])
    return res


# ---------------------------------------------------------------- part: fp8 sweep (all 2^32 patterns)

SWEEP_FORMATS = [(4, 3), (5, 2)]
NCHUNK = 256


def enum_sweep(ctx):
    jobs = [(E, M, c) for (E, M) in SWEEP_FORMATS for c in range(NCHUNK)]
    if ctx.tier == "quick":
        rng = np.random.default_rng(ctx.seed)
        # chunk c covers exponent bits [c>>1]; take the chunks around the format's range + random ones
        pick = set()
        for (E, M) in SWEEP_FORMATS:
            emin, emax = fo.emin_emax(E)
            for e in (emin - M - 1, emin, emax, emax + 1):
                pick.add((E, M, ((e + 127) << 1) & 0xFF))
            for c in rng.integers(0, NCHUNK, size=3):
                pick.add((E, M, int(c)))
        jobs = sorted(pick)
    for i, (E, M, c) in enumerate(jobs):
        if i % ctx.nshards == ctx.shard:
            yield dict(E=E, M=M, chunk=c, full=ctx.tier != "quick")


def run_sweep(case) -> CaseResult:
    E, M, c = case["E"], case["M"], case["chunk"]
    res = CaseResult()
    size = 2**24 if case["full"] else 2**21
    start = c * 2**24
    bits = np.arange(start, start + size, dtype=np.uint32)  # sign bit = top bit of c
    x = bits.view(np.float32)
    x = x[~np.isnan(x)]
    if x.shape[0] == 0:
        res.evals = 0
        res.nontrivial_n = 0
        return res
    n = block_clauses(res, E, M, x, "sweep", use_set=(c % 16 == 0))
    res.evals = int(x.shape[0])
    res.nontrivial_n = n
    res.sample = dict(format=f"E{E}M{M}", first_bits=hex(start), inputs=int(x.shape[0]), rounded=n)
    res.labels.append("sweep-chunk")
    return res


# ---------------------------------------------------------------- part: tensors (shape / dtype / layout)


@st.composite
def tensor_cases(draw, tier):
    dtype = draw(st.sampled_from(["float32", "float64", "bfloat16", "float16", "float32", "float64"]))
    if dtype == "float16":
        E = draw(st.integers(2, 5)); M = draw(st.sampled_from([10, 10, 9]) | st.integers(0, 10))   # the widest mantissas that still fit the dtype matter most
    elif dtype == "bfloat16":
        E = draw(st.integers(2, 8)); M = draw(st.sampled_from([7, 7, 6]) | st.integers(0, 7))
    else:
        # the corners of the format grid (widest exponent / mantissa: E8M23 is float32 itself, its maximum the float32 maximum) weighted up
        E = draw(st.sampled_from([8, 8, 2]) | st.integers(2, 8)); M = draw(st.sampled_from([23, 23, 0]) | st.integers(0, 23))
    rank = draw(st.integers(0, 3))
    shape = [draw(st.integers(0, 5) if draw(st.integers(0, 9)) == 0 else st.integers(1, 5)) for _ in range(rank)]
    layout = draw(st.sampled_from(["contiguous", "transposed", "strided", "expanded"])) if rank >= 1 else "contiguous"
    profile = draw(st.sampled_from(["normal", "wide", "tiny", "tiny", "values", "huge"]))
    return dict(E=E, M=M, dtype=dtype, shape=shape, layout=layout, profile=profile, seed=draw(st.integers(0, 2**20)))


def make_tensor(case):
    E, M = case["E"], case["M"]
    g = torch.Generator().manual_seed(case["seed"])
    shape = list(case["shape"])
    lay = case["layout"]
    base_shape = list(shape)
    if lay == "strided" and shape:
        base_shape[-1] = shape[-1] * 2
    if lay == "transposed" and len(shape) >= 2:
        base_shape[-1], base_shape[-2] = shape[-2], shape[-1]
    if lay == "expanded" and shape:
        base_shape[0] = 1
    x = torch.randn(base_shape, generator=g, dtype=torch.float64)
    pr = case["profile"]
    vmax = fo.fmt_max(E, M)
    if pr == "wide":
        x = x * min(vmax, 1e30)
    elif pr == "tiny":
        x = x * fo.fmt_min_normal(E)
    elif pr == "huge":
        x = x * min(vmax * 4, 1e37)
    elif pr == "values":
        v = fo.value_set(E, min(M, 8))
        idx = torch.randint(0, len(v), base_shape, generator=g)
        x = torch.from_numpy(v)[idx].reshape(base_shape) * torch.sign(x)
    if E == 8:
        x = x.clamp(-2.0**125, 2.0**125)
    x = x.to(DT[case["dtype"]])
    if lay == "strided" and shape:
        x = x[..., ::2]
    if lay == "transposed" and len(shape) >= 2:
        x = x.transpose(-1, -2)
    if lay == "expanded" and shape:
        x = x.expand(shape)
    assert list(x.shape) == shape, (x.shape, shape)
    return x


def run_tensor(case) -> CaseResult:
    E, M = case["E"], case["M"]
    res = CaseResult()
    x = make_tensor(case)
    dt = case["dtype"]
    tag = f"dtype={dt}" + (":rank0" if x.dim() == 0 else "") + (":empty" if x.numel() == 0 else "")
    res.labels += [f"dtype={dt}", f"rank={x.dim()}", f"layout={case['layout']}"] + (["empty"] if x.numel() == 0 else [])
    keep = x.clone()
    fmt = FPFormat(E, M, rounding="nearest")
    # the process-wide default dtype in force during the call (torch.set_default_dtype) must not matter
    dd = [None, None, None, "float64", "bfloat16", "float16"][case["seed"] % 6]
    old_default = torch.get_default_dtype()
    try:
        if dd:
            torch.set_default_dtype(getattr(torch, dd))
            res.labels.append("default-dtype=" + dd)
        q = fmt.quantise(x)
    except Exception as e:  # noqa: BLE001
        res.fail(exc_bucket(f"C13.raises.tensor:{tag}", e), f"E{E}M{M} shape={list(x.shape)} {dt}: {type(e).__name__}: {e}")
        return res
    finally:
        torch.set_default_dtype(old_default)
    if not isinstance(q, torch.Tensor) or q.shape != x.shape or q.dtype != x.dtype:
        res.fail(f"C13.shape.tensor:{tag}", f"E{E}M{M} in {list(x.shape)} {x.dtype} -> out {list(getattr(q, 'shape', []))} {getattr(q, 'dtype', None)}")
        return res
    if not torch.equal(x.to(torch.float64), keep.to(torch.float64)) or x.stride() != keep.stride() and False:
        res.fail(f"C13.argument-modified.tensor:{tag}", f"E{E}M{M}")
    if x.numel() == 0:
        res.nontrivial = True
        return res
    # value clauses on the float32 image of the input (the documented float32 arithmetic)
    x32 = x.to(torch.float32).contiguous().reshape(-1).numpy()
    qv = q.to(torch.float64).contiguous().reshape(-1).numpy()
    ax, lo, hi, sp = fo.neighbours(E, M, x32)
    aq = np.abs(qv)
    okn = (aq == lo) | (aq == hi)
    if not okn.all():
        i = np.where(~okn)[0]
        res.fail(f"C13.not-a-neighbour.tensor:{tag}", f"E{E}M{M} shape={list(x.shape)} x={hexs(x32, i)} q={hexs(qv, i)}")
    else:
        far = np.abs(aq - ax) > np.minimum(ax - lo, hi - ax) + 2.0 ** (M - 23) * sp
        if far.any():
            i = np.where(far)[0]
            res.fail(f"C13.not-nearest.tensor:{tag}", f"E{E}M{M} x={hexs(x32, i)} q={hexs(qv, i)}")
        sg = (np.signbit(qv) == np.signbit(x32))
        if not sg.all():
            res.fail(f"C13.sign.tensor:{tag}", f"E{E}M{M}")
    # layout independence: same values as quantising a contiguous float32 copy
    ref = fmt.quantise(torch.from_numpy(x32.copy())).to(torch.float64).numpy()
    if not np.array_equal(ref, qv):
        i = np.where(ref != qv)[0]
        res.fail(f"C13.layout.tensor:{tag}", f"E{E}M{M} layout={case['layout']} x={hexs(x32, i)} q={hexs(qv, i)} ref={hexs(ref, i)}")
    res.nontrivial = bool((lo != hi).any()) or x.dim() == 0
    return res


def selftest():
    fo.selftest()


CHECK = Check(
    id="C13",
    parts=[
        Part("values", run_values, enumerate=enum_values, exhaustive={"quick": False, "thorough": False}),
        Part("sweep", run_sweep, enumerate=enum_sweep, exhaustive={"quick": False, "thorough": True}),
        Part("tensor", run_tensor, strategy=tensor_cases, budget={"quick": 1600, "thorough": 40000}),
    ],
    rule=("values: for each of the 168 formats E2..8 x M0..23 a block of float32 probes (every/sampled representable value, "
          "midpoints, +-4ulp neighbours, random mantissas for each of the 255 float32 exponents, +-0, +-inf, both signs); "
          "sweep: 2^24-pattern chunks of the float32 bit space for E4M3/E5M2 (thorough: all 512 chunks = every non-NaN float32; "
          "quick: 2^21-pattern slices of the chunks at the format's range ends plus 3 seeded chunks); tensor: Hypothesis cases "
          "format x dtype x rank 0-3 x layout x value profile. Non-trivial input = not representable in the format (actually "
          "rounded), counted per input; a tensor case is non-trivial if it rounds something or is rank 0 / empty."),
    assumptions=["numpy frexp/ldexp/floor on float64 are exact for float32 inputs (oracle B)",
                 "oracle A (enumerated value set) cross-validated against oracle B and against Fractions at start-up",
                 "distance slack 2^(M-23) x spacing as stated in the property (float32 division in the subnormal range)",
                 "E = 8 probed only for |x| < 2^126 (stated domain)"],
    shards={"quick": 8, "thorough": 14},
    selftest=selftest,
    time_budget={"quick": 200.0, "thorough": 2400.0},
)

if __name__ == "__main__":
    main(CHECK)
