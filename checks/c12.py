"""C12 - width-independent updates: one Adam step moves every output by exactly lr."""
from __future__ import annotations

import collections
import copy
import pickle
import math

from vlib import env  # noqa: F401
import torch
from hypothesis import strategies as st

from vlib.runner import CaseResult, Check, Part, exc_bucket, main

import unit_scaling as uu
from unit_scaling import optim as uo

sizes = st.sampled_from([1, 2, 3, 7, 16, 64, 257, 1024, 4096]) | st.integers(1, 4096)


@st.composite
def cases(draw, tier):
    kind = draw(st.sampled_from(["Linear", "LinearReadout", "Conv1d"]))
    fi, fo = draw(sizes), draw(sizes)
    k = draw(st.integers(1, 9)) if kind == "Conv1d" else 1
    while fi * fo * k > 2**20:
        if fi >= fo:
            fi = max(1, fi // 4)
        else:
            fo = max(1, fo // 4)
    depth = draw(st.one_of(st.none(), st.integers(1, 64), st.sampled_from([1, 2, 64])))
    eta = draw(st.floats(math.log(1e-4), 0.0).map(lambda v: float(f"{math.exp(v):.6g}")) | st.sampled_from([1e-4, 1.0, 0.01]))
    return dict(kind=kind, fan_in=fi, fan_out=fo, kernel=k, depth=depth, eta=eta, opt=draw(st.sampled_from(["Adam", "AdamW"])),
                constraint=draw(st.sampled_from(["default", None])), bias=draw(st.booleans()), seed=draw(st.integers(0, 10**6)),
                batch=draw(st.sampled_from([None, 1])), container=draw(st.sampled_from(["padded", "padded", "shared-instance", "module-list"])),
                lr_spell=draw(st.sampled_from(["keyword", "keyword", "positional", "tensor", "tensor-positional"])),
                params_spell=draw(st.sampled_from(["weight-list", "weight-list", "model.parameters()", "mixed-group"])),
                model_history=draw(st.sampled_from([None, None, None, "clone-layers", "copy-model", "pickle-model"])))


def run(c) -> CaseResult:
    res = CaseResult()
    torch.manual_seed(c["seed"])
    g = torch.Generator().manual_seed(c["seed"])
    fi, fo, k = c["fan_in"], c["fan_out"], c["kernel"]
    kw = {} if c["constraint"] == "default" else dict(constraint=None)
    res.labels += [c["kind"], c["opt"], f"depth={'none' if c['depth'] is None else ('1' if c['depth'] == 1 else '>1')}",
                   f"constraint={c['constraint']}", f"bias={c['bias']}"]
    try:
        if c["kind"] == "Linear":
            layer = uu.Linear(fi, fo, bias=c["bias"], dtype=torch.float64, **kw)
        elif c["kind"] == "LinearReadout":
            layer = uu.LinearReadout(fi, fo, bias=c["bias"], dtype=torch.float64, **kw)
        else:
            layer = uu.Conv1d(fi, fo, k, bias=c["bias"], dtype=torch.float64, **kw)
        if c["kind"] == "Conv1d":
            shape = (fi, k) if c["batch"] is None else (1, fi, k)   # input length = kernel size: a single output position
        else:
            shape = (fi,) if c["batch"] is None else (1, fi)
        x = (torch.randint(0, 2, shape, generator=g).to(torch.float64) * 2 - 1)
        hist = c.get("model_history")
        if hist:
            # the way models are assembled in practice: layers are copies of a prototype, and the assembled model is itself copied /
            # serialised before it is trained (the depth recorded by the container must survive all of it)
            layer = copy.deepcopy(layer)
            res.labels.append("history=" + hist)
        model = layer
        if c["depth"] is not None:
            # the layer sits first in a depth container padded with layers whose parameters get no gradient
            kind_c = c.get("container", "padded")
            if kind_c == "shared-instance":
                model = uu.DepthSequential(*[layer] * c["depth"])   # a weight-shared layer applied depth times
            else:
                pads = [uu.Linear(1, 1, dtype=torch.float64) for _ in range(c["depth"] - 1)]
                if hist and pads:
                    pads = [copy.deepcopy(pads[0]) for _ in pads]
                if kind_c == "padded" and c["seed"] % 2:
                    model = uu.DepthSequential(collections.OrderedDict([("first", layer)] + [(f"pad{i_}", p_) for i_, p_ in enumerate(pads)]))
                    kind_c = "padded(OrderedDict)"
                else:
                    model = uu.DepthSequential(layer, *pads) if kind_c == "padded" else uu.DepthModuleList(iter([layer] + pads))
            res.labels.append(f"container={kind_c}")
        if hist in ("copy-model", "pickle-model"):
            model = copy.deepcopy(model) if hist == "copy-model" else pickle.loads(pickle.dumps(model))
            layer = model if c["depth"] is None else model[0]
        params = [p for p in layer.parameters()]
        if c["bias"]:
            params = [layer.weight]   # train the weight only: the statement is about the weight update
        Opt = uo.Adam if c["opt"] == "Adam" else uo.AdamW
        all_params = c.get("params_spell") == "model.parameters()"
        if all_params:
            params = model.parameters()   # every parameter as its own implicit group (a generator); only the weight will get a gradient
        okw = {}
        if c.get("params_spell") == "mixed-group":
            # one explicit group holding the unit-scaled weight next to a plain nn.Parameter (allowed by flag); the plain one gets no gradient
            params = [dict(params=[torch.nn.Parameter(torch.zeros(3, dtype=torch.float64)), layer.weight])]
            okw = dict(allow_non_unit_scaling_params=True)
        lr_spell = c.get("lr_spell", "keyword")
        eta_arg = torch.tensor(c["eta"], dtype=torch.float64) if lr_spell.startswith("tensor") else c["eta"]
        if lr_spell.endswith("positional"):
            opt = Opt(params, eta_arg, eps=0.0, weight_decay=0.0, betas=(0.9, 0.999), **okw)
        else:
            opt = Opt(params, lr=eta_arg, eps=0.0, weight_decay=0.0, betas=(0.9, 0.999), **okw)
        res.labels += [f"lr={lr_spell}", f"params={c.get('params_spell', 'weight-list')}"]
        y0 = layer(x)
        gmag = torch.exp(torch.empty(y0.shape, dtype=torch.float64).uniform_(math.log(1e-3), math.log(1e3), generator=g))
        gsign = torch.randint(0, 2, y0.shape, generator=g).to(torch.float64) * 2 - 1
        gup = gmag * gsign
        y0.backward(gup)
        if all_params:
            for p_ in model.parameters():
                if p_ is not layer.weight:
                    p_.grad = None   # the statement is about the weight update: the other parameters take no step
        opt.step()
        y1 = layer(x)
    except Exception as e:  # noqa: BLE001
        res.fail(exc_bucket(f"C12.raises:{c['kind']}", e), f"{type(e).__name__}: {e}")
        return res
    want = -c["eta"] * (c["depth"] ** -0.5 if c["depth"] is not None else 1.0) * gsign
    delta = (y1 - y0).detach()
    err = ((delta - want).abs().max() / abs(c["eta"])).item()
    res.stat("max|delta - expected|/eta", err)
    if not err <= 1e-9 * (1 if c["depth"] is None else 1):
        j = int((delta - want).abs().argmax())
        res.fail(f"C12.update-size:{c['kind']}:{'depth' if c['depth'] is not None else 'nodepth'}",
                 f"output moved by {delta.flatten()[j].item()!r}, expected {want.flatten()[j].item()!r} (fan_in={fi}, fan_out={fo}, kernel={k}, depth={c['depth']}, eta={c['eta']}, {c['opt']})")
    res.nontrivial = fi != fo or k > 1 or c["depth"] is not None
    return res


CHECK = Check(
    id="C12",
    parts=[Part("adam-step", run, strategy=cases, budget={"quick": 1600, "thorough": 100000})],
    rule=("Hypothesis: layer in {Linear, LinearReadout, Conv1d with input length = kernel size}, fan_in/fan_out in [1,4096] (product "
          "<= 2^20), kernel 1-9, depth None or 1..64 (layer first in a DepthSequential / DepthModuleList padded with layers that get no gradient, or one weight-shared instance repeated depth times), eta "
          "log-uniform in [1e-4,1], +-1 inputs, upstream gradient magnitudes in [1e-3,1e3] with random signs, library Adam/AdamW with "
          "eps=0, weight_decay=0, float64, default or None constraint; lr by keyword / positionally / as a 0-d tensor; the optimizer given the weight alone or model.parameters() (all other gradients cleared). Oracle: layer(x) after step minus before == -eta/sqrt(depth) x "
          "sign(g) elementwise (1e-9 of eta). Non-trivial = fan_in != fan_out or kernel > 1 or a depth."),
    assumptions=["torch.optim.Adam first step with eps=0 moves each weight by -lr*sign(grad) (bias-correction cancels)",
                 "when the layer has a bias only the weight is trained (the statement concerns the weight update)"],
    shards={"quick": 8, "thorough": 14},
)

if __name__ == "__main__":
    main(CHECK)
