"""C06 - residual split/add: normalised mix, delayed branch scaling, true input gradient."""
from __future__ import annotations

import math

from vlib import env  # noqa: F401
import torch
from hypothesis import strategies as st

import unit_scaling.functional as U
from vlib.runner import CaseResult, Check, Part, exc_bucket, main

taus = st.one_of(st.sampled_from([0.01, 0.5, 1.0, 1e-3, 1e3, 2.0]), st.floats(math.log(1e-3), math.log(1e3)).map(lambda v: float(f"{math.exp(v):.6g}")))
LEAF = ["W", "tanh", "sin", "sq", "ugelu", "ulinear", "usilu", "pool"]


def layer_st(depth):
    leaf = st.sampled_from(LEAF).map(lambda k: dict(kind=k))
    if depth <= 0:
        ops = st.lists(leaf, min_size=1, max_size=3)
    else:
        ops = st.lists(st.one_of(leaf, leaf, leaf, st.deferred(lambda: layer_st(depth - 1))), min_size=1, max_size=3)
    return st.builds(lambda tau, branch, apply: dict(kind="layer", tau=tau, branch=branch, apply=apply), taus, ops, st.booleans())


@st.composite
def cases(draw, tier):
    n = draw(st.integers(1, 8))
    layers = [draw(layer_st(draw(st.sampled_from([0, 0, 1, 2])))) for _ in range(n)]
    h = draw(st.integers(1, 5))
    lead = draw(st.lists(st.integers(1, 3), min_size=0, max_size=2))
    return dict(layers=layers, hidden=h, lead=lead, seed=draw(st.integers(0, 10**6)))


def weights(h, seed):
    g = torch.Generator().manual_seed(seed)
    return [torch.randn(h, h, generator=g, dtype=torch.float64) / math.sqrt(h) for _ in range(4)]


def leaf_apply(op, x, Ws, ctr):
    k = op["kind"]
    if k == "W":
        ctr[0] += 1
        return x @ Ws[ctr[0] % 4]
    if k == "tanh":
        return torch.tanh(x)
    if k == "sin":
        return torch.sin(x)
    if k == "sq":
        # bounded square: x^2/4 composed over nested layers reaches 1e9, where sin / gelu derivatives amplify the last-ulp
        # differences between any two evaluation orders (ill-conditioning of the function, not of either implementation)
        t = torch.tanh(x)
        return t * t * 2
    if k == "ugelu":
        return U.gelu(x)           # default constraint: a true function (forward scale == backward scale)
    if k == "usilu":
        return U.silu(x, mult=2.0)
    if k == "ulinear":
        ctr[0] += 1
        return U.linear(x, Ws[ctr[0] % 4], None)
    if k == "pool":
        # a branch whose output has to be broadcast against the skip tensor: (..., n, h) -> (..., 1, h)
        return x.mean(dim=-2, keepdim=True) if x.dim() >= 2 else x
    raise KeyError(k)


def run_lib(ops, x, Ws, ctr, hooks):
    for op in ops:
        if op["kind"] != "layer":
            x = leaf_apply(op, x, Ws, ctr)
            continue
        tau = op["tau"]
        if op["apply"]:
            x = U.residual_apply(lambda r: run_lib(op["branch"], r, Ws, ctr, hooks), x, tau)
        else:
            r, s = U.residual_split(x, tau)
            r = run_lib(op["branch"], r, Ws, ctr, hooks)
            rec = {}
            if r.requires_grad:
                r.register_hook(lambda g, rec=rec: rec.__setitem__("branch", g.detach().clone()))
            x = U.residual_add(r, s, tau)
            if x.requires_grad:
                x.register_hook(lambda g, rec=rec: rec.__setitem__("out", g.detach().clone()))
            hooks.append((tau, rec))
    return x


def run_ref(ops, x, Ws, ctr):
    for op in ops:
        if op["kind"] != "layer":
            x = leaf_apply(op, x, Ws, ctr)
            continue
        tau = op["tau"]
        x = (x + tau * run_ref(op["branch"], x, Ws, ctr)) / math.sqrt(1 + tau * tau)
    return x


def count(ops):
    n = nested = 0
    for op in ops:
        if op["kind"] == "layer":
            a, b = count(op["branch"])
            n += 1 + a
            nested = max(nested, 1 + b)
    return n, nested


def run(c) -> CaseResult:
    res = CaseResult()
    h = c["hidden"]
    Ws = weights(h, c["seed"])
    g = torch.Generator().manual_seed(c["seed"] + 1)
    x0 = torch.randn(c["lead"] + [h], generator=g, dtype=torch.float64)
    up = torch.randn(c["lead"] + [h], generator=g, dtype=torch.float64)
    xl = x0.clone().requires_grad_()
    xr = x0.clone().requires_grad_()
    hooks = []
    try:
        yl = run_lib(c["layers"], xl, Ws, [0], hooks)
        (gl,) = torch.autograd.grad(yl, xl, up)
    except Exception as e:  # noqa: BLE001
        res.fail(exc_bucket("C06.raises", e), f"{type(e).__name__}: {e}")
        return res
    yr = run_ref(c["layers"], xr, Ws, [0])
    (gr,) = torch.autograd.grad(yr, xr, up)
    if not bool(torch.isfinite(yr).all() and torch.isfinite(gr).all()):
        res.labels.append("degenerate")
        return res

    def rel(a, b):
        return ((a - b).abs().max() / b.abs().max().clamp_min(1e-300)).item()
    e_out, e_grad = rel(yl.detach(), yr.detach()), rel(gl, gr)
    res.stat("rel-error.output", e_out)
    res.stat("rel-error.grad", e_grad)
    if not e_out <= 1e-10:
        res.fail("C06.value", f"output differs from (x + tau f(x))/sqrt(1+tau^2): rel {e_out:.3g}")
    if not e_grad <= 1e-9:
        res.fail("C06.input-gradient", f"x.grad differs from the derivative of the closed form: rel {e_grad:.3g}")
    for tau, rec in hooks:
        if "branch" in rec and "out" in rec:
            want = rec["out"] if rec["out"].shape == rec["branch"].shape else rec["out"].sum_to_size(rec["branch"].shape)
            e = rel(rec["branch"], want) if want.abs().max() > 0 else 0.0
            if not e <= 1e-12:
                res.fail("C06.branch-gradient-attenuated", f"gradient at the branch output differs from the gradient of the add output by rel {e:.3g} (tau={tau})")
                break
    n, nested = count(c["layers"])
    res.nontrivial = any(l["tau"] != 1.0 for l in c["layers"])
    res.labels += [f"nesting={nested}"] + (["sequential>=3"] if len(c["layers"]) >= 3 else []) + \
        (["broadcast-branch"] if "pool" in str(c["layers"]) and len(c["lead"]) >= 1 else []) + \
        (["unit-scaled-op-in-branch"] if "ugelu" in str(c["layers"]) or "ulinear" in str(c["layers"]) else [])
    return res


# ------------------------------------------------------------------ primitives: weights, residual_apply == split/f/add, gradcheck


@st.composite
def prim_cases(draw, tier):
    return dict(tau=draw(taus), shape=draw(st.lists(st.integers(1, 4), min_size=1, max_size=3)), seed=draw(st.integers(0, 10**6)),
                branch=draw(st.sampled_from(["tanh", "sin", "sq", "ugelu", "W", "const", "detached"])),
                warm_dtype=draw(st.sampled_from([None, None, "bfloat16", "float16", "float32"])),
                lp_dtype=draw(st.sampled_from([None, "bfloat16", "float16", "float32"])))


def run_prim(c) -> CaseResult:
    res = CaseResult()
    tau = c["tau"]
    one = torch.ones(1, dtype=torch.float64)
    zero = torch.zeros(1, dtype=torch.float64)
    try:
        a = U.residual_add(one, zero, tau).item()
        b = U.residual_add(zero, one, tau).item()
    except Exception as e:  # noqa: BLE001
        res.fail(exc_bucket("C06.prim.raises", e), f"{e}")
        return res
    if not abs(a * a + b * b - 1) <= 1e-12:
        res.fail("C06.weights-not-normalised", f"(tau/d)^2 + (1/d)^2 = {a * a + b * b!r} for tau={tau}")
    if not abs(a / b - tau) <= 1e-12 * tau:
        res.fail("C06.weights-ratio", f"branch/skip weight ratio {a / b!r} != tau={tau}")
    g = torch.Generator().manual_seed(c["seed"])
    x0 = torch.randn(c["shape"], generator=g, dtype=torch.float64)
    up = torch.randn(c["shape"], generator=g, dtype=torch.float64)
    W = torch.randn(c["shape"][-1], c["shape"][-1], generator=g, dtype=torch.float64)
    # ("const" / "detached": a branch whose output has no autograd path back to its input - a learned constant, a gate computed
    # without gradient: the residual output of the split then receives no gradient at all)
    f = {"tanh": torch.tanh, "sin": torch.sin, "sq": lambda t: torch.tanh(t) ** 2 * 2, "ugelu": U.gelu, "W": lambda t: t @ W,
         "const": lambda t: W[0].expand(t.shape) * 1.0, "detached": lambda t: torch.tanh(t.detach()) * 0.5}[c["branch"]]
    if c.get("warm_dtype"):
        # the same tau was used before on a tensor of another dtype (nothing may be carried over between calls)
        dt = {"bfloat16": torch.bfloat16, "float16": torch.float16, "float32": torch.float32}[c["warm_dtype"]]
        xw = x0.to(dt).requires_grad_()
        U.residual_apply(torch.tanh, xw, tau).sum().backward()
        res.labels.append("after-call-in-" + c["warm_dtype"])
    x1 = x0.clone().requires_grad_()
    x2 = x0.clone().requires_grad_()
    y1 = U.residual_apply(f, x1, tau)
    r, s = U.residual_split(x2, tau)
    y2 = U.residual_add(f(r), s, tau)
    (g1,) = torch.autograd.grad(y1, x1, up)
    (g2,) = torch.autograd.grad(y2, x2, up)
    def eq(a, b):  # identical up to float64 rounding (observed: bit-equal)
        return bool(((a - b).abs() <= 1e-13 * max(1e-300, float(b.abs().max()))).all())
    if not (eq(y1, y2) and eq(g1, g2)):
        res.fail("C06.residual_apply-differs", f"residual_apply is not bitwise split/f/add (tau={tau}, branch={c['branch']})")
    # x.grad of the single layer vs the closed form (float64)
    xc = x0.clone().requires_grad_()
    yc = (xc + tau * f(xc)) / math.sqrt(1 + tau * tau)
    (gc,) = torch.autograd.grad(yc, xc, up)
    if not bool(((g1 - gc).abs() <= 1e-10 * max(1e-300, float(gc.abs().max()))).all()):
        res.fail("C06.input-gradient", f"single layer: x.grad differs from the derivative of the closed form (tau={tau}, branch={c['branch']}, earlier dtype={c.get('warm_dtype')})")
    if c["branch"] != "detached":   # (finite differences see through a detach: not comparable)
        xs = x0.clone().requires_grad_()
        ok = torch.autograd.gradcheck(lambda t: U.residual_apply(f, t, tau), (xs,), eps=1e-6, atol=1e-7, rtol=1e-5, raise_exception=False)
        if ok is not True:
            res.fail("C06.gradcheck", f"gradcheck on residual_apply failed (tau={tau}, branch={c['branch']})")
    # the same layer on a reduced-precision stream (the dtypes models are trained in): value and x.grad agree with the closed form
    # evaluated in float64 on the same (rounded) data, to a few roundings of that dtype
    if c.get("lp_dtype"):
        dt = getattr(torch, c["lp_dtype"])
        # (float32: the elementwise kernels themselves - erf, tanh - are only accurate to ~1e-6 of the result's scale)
        eps = {torch.bfloat16: 2.0**-8, torch.float16: 2.0**-11, torch.float32: 2.0**-19}[dt]
        res.labels.append("stream-dtype=" + c["lp_dtype"])
        xl, upl, Wl = x0.to(dt), up.to(dt), W.to(dt)
        flp = {"tanh": torch.tanh, "sin": torch.sin, "sq": lambda t: torch.tanh(t) ** 2 * 2, "ugelu": U.gelu, "W": lambda t: t @ Wl,
               "const": lambda t: Wl[0].expand(t.shape) * 1.0, "detached": lambda t: torch.tanh(t.detach()) * 0.5}[c["branch"]]
        f64 = {"tanh": torch.tanh, "sin": torch.sin, "sq": lambda t: torch.tanh(t) ** 2 * 2, "ugelu": U.gelu, "W": lambda t: t @ Wl.double(),
               "const": lambda t: Wl.double()[0].expand(t.shape) * 1.0, "detached": lambda t: torch.tanh(t.detach()) * 0.5}[c["branch"]]
        try:
            xq = xl.clone().requires_grad_()
            yl = U.residual_apply(flp, xq, tau)
            (gl,) = torch.autograd.grad(yl, xq, upl)
        except Exception as e:  # noqa: BLE001
            res.fail(exc_bucket(f"C06.low-precision.raises:{c['lp_dtype']}", e), f"{type(e).__name__}: {e}")
        else:
            xr = xl.double().requires_grad_()
            fr = f64(xr)
            d_ = math.sqrt(1 + tau * tau)
            yr = (xr + tau * fr) / d_
            gb = torch.autograd.grad(fr, xr, upl.double(), retain_graph=True)[0] if fr.requires_grad else torch.zeros_like(xr)
            (gr,) = torch.autograd.grad(yr, xr, upl.double())
            ysc = (float(xr.abs().max()) + tau * float(fr.abs().max())) / d_
            # (the branch derivative is itself computed in the low precision, with absolute error ~eps where it cancels - 1 - tanh^2 near
            # saturation - so its scale is at least that of the upstream gradient)
            upm = float(upl.double().abs().max())
            gsc = (upm + tau * max(upm, float(gb.abs().max()))) / d_
            tiny = {torch.bfloat16: 2.0**-133, torch.float16: 2.0**-24, torch.float32: 2.0**-149}[dt]
            if yl.dtype != dt or gl.dtype != dt:
                res.fail("C06.low-precision.dtype", f"stream of dtype {dt}: output {yl.dtype}, gradient {gl.dtype}")
            elif not bool(((yl.double() - yr.detach()).abs() <= 8 * eps * ysc + 8 * tiny).all()):
                res.fail(f"C06.low-precision.value:{c['lp_dtype']}", f"{c['lp_dtype']} stream: output differs from (x + tau f(x))/sqrt(1+tau^2) by "
                         f"{float((yl.double() - yr.detach()).abs().max()):.3g} (scale {ysc:.3g}, tau={tau}, branch={c['branch']})")
            elif not bool(((gl.double() - gr).abs() <= 8 * eps * gsc + 8 * tiny).all()):
                res.fail(f"C06.low-precision.input-gradient:{c['lp_dtype']}", f"{c['lp_dtype']} stream: x.grad differs from the derivative of the closed form by "
                         f"{float((gl.double() - gr).abs().max()):.3g} (scale {gsc:.3g}, tau={tau}, branch={c['branch']})")
    # a branch whose output dtype is wider than the stream's (a float32 sub-network on a half-precision stream): type promotion
    # decides the result dtype, and residual_apply must still be the split / f / add sequence
    if c.get("lp_dtype"):
        dt = getattr(torch, c["lp_dtype"])
        wide = torch.float64 if dt == torch.float32 else torch.float32
        fw = lambda t: torch.tanh(t.to(wide)) * 0.75  # noqa: E731
        try:
            xa = x0.to(dt).requires_grad_()
            xb = x0.to(dt).requires_grad_()
            ya = U.residual_apply(fw, xa, tau)
            rb_, sb_ = U.residual_split(xb, tau)
            yb = U.residual_add(fw(rb_), sb_, tau)
            upw = up.to(yb.dtype)
            (ga,) = torch.autograd.grad(ya, xa, upw)
            (gb,) = torch.autograd.grad(yb, xb, upw)
        except Exception as e:  # noqa: BLE001
            res.fail(exc_bucket(f"C06.widening-branch.raises:{c['lp_dtype']}", e), f"{type(e).__name__}: {e}")
        else:
            epsw = {torch.float32: 2.0**-24, torch.float64: 2.0**-53}[wide]
            if ya.dtype != yb.dtype or ga.dtype != gb.dtype:
                res.fail("C06.residual_apply-differs:dtype", f"stream {dt}, branch output {wide}: residual_apply returns {ya.dtype}, split/f/add returns {yb.dtype}")
            elif not bool(((ya.double() - yb.double()).abs() <= 4 * epsw * max(1e-300, float(yb.double().abs().max()))).all()) or \
                    not bool(((ga.double() - gb.double()).abs() <= 8 * {torch.bfloat16: 2.0**-8, torch.float16: 2.0**-11, torch.float32: 2.0**-24}[dt]
                              * max(1e-300, float(gb.double().abs().max()))).all()):
                res.fail("C06.residual_apply-differs:widening-branch", f"stream {dt}, branch output {wide}: residual_apply differs from split/f/add (tau={tau})")
    # a branch that starts with an in-place op (nn.ReLU(inplace=True) is common in residual branches), with gradient tracking,
    # under no_grad and for an input that does not require grad: the skip path and the caller's x must not be touched
    for mode in ("grad", "no_grad", "no-requires-grad"):
        xi = x0.clone()
        if mode == "grad":
            xi.requires_grad_()
        keep = xi.detach().clone()
        try:
            if mode == "no_grad":
                with torch.no_grad():
                    yi = U.residual_apply(lambda r: torch.relu_(r) * 1.5, xi, tau)
            else:
                yi = U.residual_apply(lambda r: torch.relu_(r) * 1.5, xi, tau)
        except Exception as e:  # noqa: BLE001
            res.fail(exc_bucket(f"C06.inplace-branch.raises:{mode}", e), f"{type(e).__name__}: {e}")
            continue
        want = (keep + tau * torch.relu(keep) * 1.5) / math.sqrt(1 + tau * tau)
        if not torch.equal(xi.detach(), keep):
            res.fail(f"C06.inplace-branch.input-modified:{mode}", f"the caller's x was modified by an in-place op inside the branch (tau={tau})")
        elif not bool(((yi.detach() - want).abs() <= 1e-12 * max(1e-300, float(want.abs().max()))).all()):
            res.fail(f"C06.inplace-branch.value:{mode}", f"output differs from (x + tau f(x))/sqrt(1+tau^2) when the branch starts with an in-place op (tau={tau})")
    res.nontrivial = tau != 1.0
    res.labels.append("primitive")
    return res


CHECK = Check(
    id="C06",
    parts=[Part("programs", run, strategy=cases, budget={"quick": 2000, "thorough": 100000}),
           Part("primitives", run_prim, strategy=prim_cases, budget={"quick": 1500, "thorough": 60000})],
    rule=("programs: recursive Hypothesis strategy - 1-8 sequential residual layers, each Residual(tau, branch) with branch a sequence of "
          "1-3 of {fixed matrix, tanh, sin, 2 tanh(x)^2, U.gelu, U.silu, U.linear, mean-pool over the second-last dim (branch output broadcast against the skip), nested layer} (nesting <= 3), each layer written either as "
          "split/f/add or residual_apply; tau log-uniform in [1e-3,1e3] + {0.01,0.5,1}; float64 inputs of rank 1-3. Oracle: the same tree "
          "evaluated with plain torch as (x + tau f(x))/sqrt(1+tau^2) and autograd (outputs rel 1e-10, x.grad rel 1e-9); hooks on branch "
          "output vs add output (rel 1e-12). primitives: mixing weights, residual_apply bitwise equal to split/f/add, gradcheck. "
          "Non-trivial = some tau != 1."),
    assumptions=["unit-scaled ops inside a branch use their default (true-function) constraint and are evaluated by the library on both sides"],
    shards={"quick": 8, "thorough": 14},
)

if __name__ == "__main__":
    main(CHECK)
