"""C14 - stochastic rounding picks a neighbour with exactly proportional probability."""
from __future__ import annotations

from unittest.mock import patch

import numpy as np

from vlib import env  # noqa: F401
import torch

from vlib import fporacle as fo
from vlib.runner import CaseResult, Check, Part, exc_bucket, main

from unit_scaling.formats import FPFormat

REAL_RANDINT = torch.randint


class default_dtype:
    """torch.set_default_dtype(...) for the duration of one library call (the ambient default must not matter)"""

    def __init__(self, name):
        self.dt = getattr(torch, name) if name else None

    def __enter__(self):
        self.old = torch.get_default_dtype()
        if self.dt is not None:
            torch.set_default_dtype(self.dt)

    def __exit__(self, *a):
        torch.set_default_dtype(self.old)


class Draws:
    """substitute for torch.randint: hands out a harness-chosen tensor and records the request"""

    def __init__(self, pattern_fn):
        self.calls = []
        self.pattern_fn = pattern_fn

    def __call__(self, *args, **kw):
        if len(args) >= 3:
            low, high, size = args[0], args[1], args[2]
        elif len(args) == 2:
            low, high, size = 0, args[0], args[1]
        else:
            low, high, size = kw.get("low", 0), kw["high"], kw["size"]
        self.calls.append((int(low), int(high), tuple(size)))
        r = self.pattern_fn(int(low), int(high), tuple(size))
        return r.to(kw.get("dtype") or torch.int64)


def inputs_for(E, M, rng, n):
    emin, emax = fo.emin_emax(E)
    vmax = fo.fmt_max(E, M)
    k = max(4, n // 8)
    xs = [rng.uniform(-vmax, vmax, 3 * k), rng.uniform(0, 2.0**emin, k), -rng.uniform(0, 2.0**emin, k // 2 + 1),
          np.array([vmax, -vmax, 0.0, -0.0, 2.0**emin, 2.0 ** (emin - M), vmax * 1.01, -vmax * 1.5, vmax * 2.0**26, -vmax * 2.0**40, 3.0e38, -3.0e38,
                    np.nextafter(np.float32(vmax), np.float32(0)), 2.0**emin * (1 - 2.0**-24)]),
          vmax * (1 - rng.uniform(0, 2.0**-M, k // 2 + 1)),
          # log-uniform magnitudes across all binades
          np.exp(rng.uniform(np.log(2.0 ** (emin - M - 1)), np.log(vmax), 2 * k)) * rng.choice([-1.0, 1.0], 2 * k)]
    # representable values and midpoints
    es = rng.integers(emin, emax + 1, size=k)
    ms = rng.integers(0, 2**M, size=k)
    reps = np.ldexp(2.0**M + ms, es - M)
    xs += [reps, reps + np.ldexp(1.0, es - M - 1), reps + np.ldexp(1.0, es - M - 2)]
    x = np.concatenate(xs).astype(np.float32)
    x = x[np.isfinite(x)]
    rng.shuffle(x)
    return x[:n] if len(x) > n else x


def jobs(tier, seed):
    out = []
    for E in range(2, 8):
        for M in range(0, 11):
            srs = [s for s in range(1, 13) if s <= 23 - M]
            srs.append(0)  # default: all 23-M bits
            for sr in srs:
                out.append((E, M, sr))
    if tier == "quick":
        rng = np.random.default_rng(seed)
        # all formats with a seeded third of the srbits values, but always 1, 2 and the default for M >= 5
        keep = []
        for (E, M, sr) in out:
            eff = 23 - M if sr == 0 else sr
            if sr in (1, 2) or (sr == 0 and M >= 5) or (eff <= 12 and rng.random() < 0.4):
                keep.append((E, M, sr))
        out = keep
    return out


def enum_cases(ctx):
    js = jobs(ctx.tier, ctx.seed)
    for i, (E, M, sr) in enumerate(js):
        if i % ctx.nshards == ctx.shard:
            eff = 23 - M if sr == 0 else sr
            if eff > 20:
                continue
            budget = 2**21 if ctx.tier == "quick" else 2**23
            n = int(max(8, min(400, budget // 2**eff)))
            # input dtype: float32 mostly; the others where the format's values are exactly representable in the dtype
            # (bfloat16: M <= 7; float16: E <= 4; float64: always)
            alts = ["float64"] + (["bfloat16"] if M <= 7 else []) + (["float16"] if E <= 4 else [])
            pick = (i // max(1, ctx.nshards)) % 4
            dtype = "float32" if pick < 2 else alts[(i + pick) % len(alts)]
            # the process-wide default dtype in force during the call (torch.set_default_dtype): no effect allowed
            dd = [None, None, None, "float64", "bfloat16", "float16"][(i * 7 + ctx.seed) % 6]
            yield dict(E=E, M=M, srbits=sr, n=n, seed=ctx.seed, dtype=dtype, default_dtype=dd)


def run(case) -> CaseResult:
    E, M, sr, n = case["E"], case["M"], case["srbits"], case["n"]
    res = CaseResult()
    try:
        fmt = FPFormat(E, M, rounding="stochastic", srbits=sr)
    except Exception as e:  # noqa: BLE001
        res.fail(exc_bucket("C14.format.raises", e), f"E{E}M{M} srbits={sr}: {e}")
        return res
    eff = 23 - M if sr == 0 else sr
    if fmt.srbits != eff:
        res.fail("C14.srbits-field", f"FPFormat({E},{M},srbits={sr}).srbits == {fmt.srbits}, expected {eff}")
        return res
    N = 2**eff
    rng = np.random.default_rng(case["seed"] * 7919 + E * 1000 + M * 31 + sr)
    xs = inputs_for(E, M, rng, n)
    dtn = case.get("dtype", "float32")
    dt = getattr(torch, dtn)
    xt = torch.from_numpy(xs).to(dt)
    if dt != torch.float32:
        # the tensor the library sees holds values of its own dtype: the oracle works on exactly those values
        fin = torch.isfinite(xt)
        xt = xt[fin]
        xs = xt.to(torch.float32).numpy() if dt != torch.float64 else xs[fin.numpy()]
    X = xt[:, None].expand(len(xs), N).contiguous()
    keep = X.clone()
    d = Draws(lambda low, high, size: torch.arange(low, high).expand(size) if size[-1] == high - low else REAL_RANDINT(low, high, size))
    try:
        with patch("torch.randint", d), default_dtype(case.get("default_dtype")):
            Qt = fmt.quantise(X)
    except Exception as e:  # noqa: BLE001
        res.fail(exc_bucket("C14.raises", e), f"E{E}M{M} srbits={sr}: {type(e).__name__}: {e}")
        return res
    if case.get("default_dtype"):
        res.labels.append("default-dtype=" + case["default_dtype"])
    tag = f"sr={'all' if sr == 0 else 'partial'}" + ("" if dtn == "float32" else f":{dtn}")
    if len(d.calls) != 1 or d.calls[0] != (0, N, tuple(X.shape)):
        res.fail(f"C14.draw-request:{tag}", f"E{E}M{M} srbits={eff}: torch.randint requested {d.calls[:2]}, expected one call (0, {N}, {tuple(X.shape)})")
        return res
    if not torch.equal(X, keep):
        res.fail("C14.argument-modified", f"E{E}M{M}")
    # the differentiable wrapper (quantise_fwd: what the simulated layers call) returns the same values for the same draws
    try:
        dq = Draws(lambda low, high, size: torch.arange(low, high).expand(size) if size[-1] == high - low else REAL_RANDINT(low, high, size))
        with patch("torch.randint", dq):
            Qf = fmt.quantise_fwd(X.clone().requires_grad_())
        if Qf.shape != Qt.shape or not np.array_equal(Qf.detach().to(torch.float64).numpy().view(np.int64), Qt.to(torch.float64).numpy().view(np.int64)):
            bad_ = (Qf.detach().to(torch.float64) != Qt.to(torch.float64)).nonzero()[0].tolist() if Qf.shape == Qt.shape else [0, 0]
            res.fail(f"C14.quantise_fwd-differs:{tag}", f"E{E}M{M} srbits={eff}: quantise_fwd(x) != quantise(x) for x={float(xs[bad_[0]]).hex()} draw={bad_[1]}: "
                     f"{float(Qf[bad_[0], bad_[1]])!r} vs {float(Qt[bad_[0], bad_[1]])!r}")
    except Exception as e:  # noqa: BLE001
        res.fail(exc_bucket("C14.raises:quantise_fwd", e), f"E{E}M{M} srbits={sr}: {type(e).__name__}: {e}")
    if Qt.shape != X.shape or Qt.dtype != X.dtype:
        res.fail("C14.shape", f"{tuple(Qt.shape)} {Qt.dtype}")
        return res
    Qn = Qt.to(torch.float64).numpy()   # (exact: every format value is representable in the input dtype by the choice above)
    Q = Qn
    ax, lo, hi, sp = fo.neighbours(E, M, xs)
    aQ = np.abs(Q)
    okn = (aQ == lo[:, None]) | (aQ == hi[:, None])
    if not okn.all():
        i = np.where(~okn.all(1))[0][0]
        j = np.where(~okn[i])[0][0]
        res.fail(f"C14.not-a-neighbour:{tag}", f"E{E}M{M} srbits={eff} x={float(xs[i]).hex()} draw={j} -> {float(Q[i, j]).hex()} (neighbours {lo[i].hex()}, {hi[i].hex()})")
        return res
    sg = (np.signbit(Qn) == np.signbit(xs)[:, None])
    if not sg.all():
        i = np.where(~sg.all(1))[0][0]
        res.fail(f"C14.sign:{tag}", f"E{E}M{M} x={float(xs[i]).hex()}")
    rep = hi == lo
    moved = (aQ != ax[:, None]) & rep[:, None]
    if moved.any():
        i = np.where(moved.any(1))[0][0]
        res.fail(f"C14.representable-moved:{tag}", f"E{E}M{M} srbits={eff} x={float(xs[i]).hex()} moved by {int(moved[i].sum())} of {N} draws")
    P = np.where(rep, 0.0, (aQ == hi[:, None]).sum(1) / N)
    p = np.where(rep, 0.0, (ax - lo) / sp)
    err = np.abs(P - p)
    normal = ax >= fo.fmt_min_normal(E)
    full = eff == 23 - M
    tol = np.where(normal, 0.0 if full else 2.0 ** -(eff + 1), (0.0 if full else 2.0 ** -(eff + 1)) + 2.0 ** -(24 - M))
    bad = err > tol
    if bad.any():
        i = np.where(bad)[0][0]
        res.fail(f"C14.probability:{tag}:{'normal' if normal[i] else 'subnormal'}",
                 f"E{E}M{M} srbits={eff} x={float(xs[i]).hex()}: P(round away)={P[i]!r} counted over {N} draws, fractional position p={p[i]!r}, |P-p|={err[i]:.3g} > {tol[i]:.3g}")
    res.stat(f"|P-p|*2^(srbits+1)[{tag}]", float((err[normal] * 2.0 ** (eff + 1)).max()) if normal.any() else 0.0)
    # independence: different draws per element -> each position equals the single-element result for its (x, draw)
    g = torch.Generator().manual_seed(case["seed"] + 11)
    R = torch.randint(0, N, (len(xs), 16), generator=g)
    Xi = xt[:, None].expand(len(xs), 16).contiguous()
    d2 = Draws(lambda low, high, size: R.clone())
    with patch("torch.randint", d2):
        Qi = fmt.quantise(Xi).to(torch.float64).numpy()
    want = np.take_along_axis(Qn, R.numpy(), axis=1)
    if not np.array_equal(Qi.view(np.int64), want.view(np.int64)):
        i, j = [int(v[0]) for v in np.where(Qi.view(np.int64) != want.view(np.int64))]
        res.fail(f"C14.independence:{tag}", f"E{E}M{M} srbits={eff}: element ({i},{j}) with x={float(xs[i]).hex()} draw={int(R[i, j])} gave {float(Qi[i, j]).hex()}, single-element result {float(want[i, j]).hex()}")
    # an input with stride-0 dimensions (expand / broadcast_to, the gradient of sum()): same request, same result, element-wise draws
    Xe = xt[:, None].expand(len(xs), N)
    d3 = Draws(lambda low, high, size: torch.arange(low, high).expand(size) if size[-1] == high - low else REAL_RANDINT(low, high, size))
    try:
        with patch("torch.randint", d3):
            Qe = fmt.quantise(Xe)
        if len(d3.calls) != 1 or d3.calls[0] != (0, N, tuple(Xe.shape)):
            res.fail(f"C14.draw-request:expanded-input", f"E{E}M{M} srbits={eff}: for an expanded (stride-0) input torch.randint was asked for {d3.calls[:2]}, expected (0, {N}, {tuple(Xe.shape)}): elements along the expanded dimension would share draws")
        elif not np.array_equal(Qe.to(torch.float64).numpy().view(np.int64), Qn.view(np.int64)):
            res.fail(f"C14.expanded-input", f"E{E}M{M} srbits={eff}: quantising an expanded view gives other values than its contiguous copy for the same draws")
    except Exception as e:  # noqa: BLE001
        res.fail(exc_bucket("C14.raises:expanded-input", e), f"E{E}M{M} srbits={sr}: {type(e).__name__}: {e}")
    nt = int(((p > 0) & (p < 1)).sum())
    res.evals = len(xs)
    res.nontrivial_n = nt
    res.labels += [f"E{E}", tag, f"srbits={eff}", f"dtype={dtn}"]
    res.sample = dict(format=f"E{E}M{M}", srbits=eff, draws_enumerated=N, inputs=len(xs), fractional=nt,
                      example=dict(x=float(xs[0]).hex(), P=float(P[0]), p=float(p[0])))
    return res


def selftest():
    # the enumerator must count exactly p for a hand-written reference quantiser (E4M3, all 20 bits is too many: use M=10)
    fo.selftest()
    E, M = 5, 10
    x = np.array([1.0 + 2.0**-10 * 0.25, 3.0 + 2.0**-9 * 0.5], dtype=np.float32)
    N = 2**13
    bits = x.view(np.int32)[:, None] + np.arange(N, dtype=np.int32)[None, :]
    q = (bits & ~np.int32(N - 1)).view(np.float32)
    ax, lo, hi, sp = fo.neighbours(E, M, x)
    P = (np.abs(q.astype(np.float64)) == hi[:, None]).sum(1) / N
    assert np.array_equal(P, (ax - lo) / sp), (P, (ax - lo) / sp)


CHECK = Check(
    id="C14",
    parts=[Part("enumerate-draws", run, enumerate=enum_cases, exhaustive={"quick": False, "thorough": False})],
    rule=("for each (format E2..7 x M0..10, srbits in 1..12 and the default when 23-M <= 20) a block of inputs held in float32 - or, for half of the blocks, in float64 / bfloat16 (M <= 7) / float16 (E <= 4), where every format value is representable - (uniform and "
          "log-uniform over the range, subnormals, representable values, midpoints and quarter points, +-max and beyond, +-0); "
          "torch.randint is substituted so that ONE quantise call enumerates all 2^srbits draws for every input: P(round away) is "
          "counted, not estimated. quick: every format with srbits 1, 2, a seeded 40% of the others and the default (all bits) for M >= 5; "
          "thorough: all 780 combinations. An input is non-trivial when its fractional position is strictly between 0 and 1; "
          "evaluations count inputs (each enumerated over all draws)."),
    assumptions=["neighbours from oracle B of C13 (cross-validated)", "P == p exactly when all 23-M discarded bits are used and |x| >= min normal; "
                 "otherwise |P-p| <= 2^-(srbits+1), plus 2^-(24-M) below the min normal (float32 division), as stated",
                 "a randint request other than (0, 2^srbits, x.shape) is itself a violation ('srbits random bits per element')"],
    shards={"quick": 8, "thorough": 14},
    selftest=selftest,
    time_budget={"quick": 240.0, "thorough": 3000.0},
)

if __name__ == "__main__":
    main(CHECK)
