"""C09 - u-muP parameter tags survive any history of copies, pickling, conversions and transforms."""
from __future__ import annotations

import copy
import io
import pickle

from vlib import env  # noqa: F401
import torch
from hypothesis import strategies as st
from torch import nn

import unit_scaling as uu
from unit_scaling import optim as uo
from unit_scaling.parameter import has_parameter_data
from unit_scaling.transforms import simulate_fp8, track_scales, unit_scale
from vlib.runner import CaseResult, Check, Part, exc_bucket, main

TAGS = ["weight", "bias", "norm", "output"]
PARAM_OPS = ["deepcopy(param)", "pickle(param)", "torch.save/load(param)", "requires_grad_toggle"]
MODULE_OPS = ["deepcopy(module)", "pickle(module)", "torch.save/load(module)", "module.to(float64)", "module.half()", "module.float()",
              "load_state_dict", "simulate_fp8(module)", "track_scales(module)", "unit_scale(module)"]
TRANSFORMS = {"simulate_fp8(module)": simulate_fp8, "track_scales(module)": track_scales, "unit_scale(module)": unit_scale}
UNPICKLABLE_AFTER_TRANSFORM = {"pickle(module)", "torch.save/load(module)"}


@st.composite
def cases(draw, tier):
    n = draw(st.integers(0, 4))
    ops = []
    transformed = False
    tracked = False  # track_scales is documented to be the last transform of a chain
    for _ in range(n):
        pool = PARAM_OPS + [o for o in MODULE_OPS if not (transformed and o in UNPICKLABLE_AFTER_TRANSFORM)]
        if draw(st.integers(0, 2)) == 0:
            pool = ["deepcopy(param)", "deepcopy(module)", "pickle(param)"] + list(TRANSFORMS)
        if tracked:
            pool = [o for o in pool if o not in TRANSFORMS]
        o = draw(st.sampled_from(pool))
        transformed |= o in TRANSFORMS
        tracked |= o == "track_scales(module)"
        ops.append(o)
    return dict(tag=draw(st.sampled_from(TAGS)), depth=draw(st.sampled_from([None, 1, 7])), ops=ops, seed=draw(st.integers(0, 10**6)),
                holder=draw(st.sampled_from(["Linear", "Linear", "Conv1d"])))


def factor(tag, shape, depth):
    fan_in = shape[1] * (shape[2] if len(shape) == 3 else 1)
    f = fan_in ** -0.5 if tag == "weight" else 1.0
    return f * (depth ** -0.5 if depth is not None else 1.0)


def check_state(res, m, model, step, opname):
    p = m[0].weight
    where = f"after step {step} ({opname})"
    kind = opname.split("(")[0] if step else "initial"
    if not isinstance(p, nn.Parameter):
        res.fail(f"C09.not-a-parameter:{kind}", f"{type(p).__name__} {where}")
        return False
    if not has_parameter_data(p):
        res.fail(f"C09.tags-lost:{kind}", f"has_parameter_data is False {where} (mup_type={getattr(p, 'mup_type', '<missing>')!r})")
        return False
    if p.mup_type != model["tag"]:
        res.fail(f"C09.type-changed:{kind}", f"mup_type {p.mup_type!r} != {model['tag']!r} {where}")
    if p.mup_scaling_depth != model["depth"]:
        res.fail(f"C09.depth-changed:{kind}", f"depth {p.mup_scaling_depth!r} != {model['depth']!r} {where}")
    if p.requires_grad != model["requires_grad"]:
        res.fail(f"C09.requires_grad-changed:{kind}", f"{p.requires_grad} != {model['requires_grad']} {where}")
    if p.dtype != model["values"].dtype or p.shape != model["values"].shape or not torch.equal(p.detach(), model["values"]):
        res.fail(f"C09.values-changed:{kind}", f"values/dtype differ {where}")
    want = factor(model["tag"], list(p.shape), model["depth"])
    try:
        g = list(uo.scaled_parameters([p], uo.lr_scale_func_adam, lr=1.0))
        lrs = [g[0]["lr"]]
        for K in (uo.SGD, uo.Adam, uo.AdamW):
            lrs.append(K([p], lr=1.0).param_groups[0]["lr"])
        # the learning rate as a 0-d tensor (its own dtype - float64 - whatever the parameter's dtype has become)
        tl = torch.tensor(1.0, dtype=torch.float64)
        lrs.append(uo.Adam([p], lr=tl).param_groups[0]["lr"])
        lrs.append(list(uo.scaled_parameters([p], uo.lr_scale_func_sgd(None), lr=tl))[0]["lr"])
    except Exception as e:  # noqa: BLE001
        res.fail(f"C09.optimizer-rejects:{kind}", f"{type(e).__name__}: {e} {where}")
        return False
    for v in lrs:
        if not abs(float(v) - want) <= 1e-12 * want:
            res.fail(f"C09.lr-changed:{kind}", f"lr {float(v)!r} != {want!r} {where}")
            break
    return True


def run(c) -> CaseResult:
    res = CaseResult()
    torch.manual_seed(c["seed"])
    if c["holder"] == "Linear":
        layer = uu.Linear(4, 3, bias=True)
        data = torch.randn(3, 4)
    else:
        layer = uu.Conv1d(4, 3, 2, bias=True)
        data = torch.randn(3, 4, 2)
    layer.weight = uu.Parameter(data, c["tag"], c["depth"])
    m = nn.Sequential(layer)
    model = dict(tag=c["tag"], depth=c["depth"], values=data.clone(), requires_grad=True)
    res.labels += [f"tag={c['tag']}", f"len={len(c['ops'])}"]
    if not check_state(res, m, model, 0, "construction"):
        return res
    seen = []
    for i, op in enumerate(c["ops"], 1):
        try:
            p = m[0].weight
            if op == "deepcopy(param)":
                m[0].weight = copy.deepcopy(p)
            elif op == "pickle(param)":
                m[0].weight = pickle.loads(pickle.dumps(p))
            elif op == "torch.save/load(param)":
                b = io.BytesIO()
                torch.save(p, b)
                b.seek(0)
                m[0].weight = torch.load(b, weights_only=False)
            elif op == "requires_grad_toggle":
                p.requires_grad_(not p.requires_grad)
                model["requires_grad"] = not model["requires_grad"]
            elif op == "deepcopy(module)":
                m = copy.deepcopy(m)
            elif op == "pickle(module)":
                m = pickle.loads(pickle.dumps(m))
            elif op == "torch.save/load(module)":
                b = io.BytesIO()
                torch.save(m, b)
                b.seek(0)
                m = torch.load(b, weights_only=False)
            elif op == "module.to(float64)":
                m = m.to(torch.float64)
                model["values"] = model["values"].to(torch.float64)
            elif op == "module.half()":
                m = m.half()
                model["values"] = model["values"].to(torch.float16)
            elif op == "module.float()":
                m = m.float()
                model["values"] = model["values"].to(torch.float32)
            elif op == "load_state_dict":
                sd = {k: v.clone() for k, v in m.state_dict().items()}
                m.load_state_dict(sd)
            elif op in TRANSFORMS:
                before = m[0].weight.detach().clone()
                m = TRANSFORMS[op](m)
                after = m[0].weight.detach()
                if op == "unit_scale(module)" and isinstance(m[0], nn.Linear):
                    # documented re-initialisation: values rescaled by one positive scalar
                    b64, a64 = before.double().flatten(), after.double().flatten()
                    s = (a64 @ b64) / (b64 @ b64)
                    if not (s > 0 and bool(((a64 - s * b64).abs() <= 1e-3 * a64.abs().max()).all())):
                        res.fail("C09.values-changed:unit_scale", "weights after unit_scale are not a positive multiple of the originals")
                    model["values"] = after.clone()
        except Exception as e:  # noqa: BLE001
            prev = "+".join(sorted(set(o.split("(")[0] for o in seen))) or "none"
            res.fail(exc_bucket(f"C09.op-raises:{op.split('(')[0]}", e), f"{op} raised {type(e).__name__}: {e} after history {seen}")
            return res
        seen.append(op)
        if not check_state(res, m, model, i, op):
            if res.fails:
                res.fails[-1].msg += f" | history={seen}"
            return res
    res.nontrivial = len(c["ops"]) >= 2
    ops = c["ops"]
    if any(a.startswith("deepcopy") and b.startswith("deepcopy") for a, b in zip(ops, ops[1:])):
        res.labels.append("copy-of-copy")
    if any(a.startswith("deepcopy") and b.startswith(("pickle", "torch.save")) for a, b in zip(ops, ops[1:])):
        res.labels.append("pickle-after-copy")
    if any(o in TRANSFORMS for o in ops):
        res.labels.append("transform-in-history")
    if sum(o in TRANSFORMS for o in ops) >= 2:
        res.labels.append("nested-transforms")
    return res


CHECK = Check(
    id="C09",
    parts=[Part("histories", run, strategy=cases, budget={"quick": 4000, "thorough": 250000})],
    rule=("Hypothesis: histories of length 0-4 over {deepcopy(param), pickle(param), torch.save/load(param), requires_grad toggle, "
          "deepcopy(module), pickle(module), torch.save/load(module), module.to(float64), module.half(), module.float(), load_state_dict, "
          "simulate_fp8 / track_scales / unit_scale (deepcopy inside)} x 4 tags x depth in {None,1,7} x holder {Linear, Conv1d}; a model "
          "(tag, depth, values, requires_grad, lr factor) is carried alongside and compared after every step, including acceptance and lr "
          "by scaled_parameters and the three optimizer classes. Non-trivial = history length >= 2. Pickling a *module* after a transform "
          "is not generated (the transformed module holds local closures Python cannot pickle - unrelated to the tags), and no transform follows track_scales "
          "(documented to come last)."),
    assumptions=["dtype conversions are mirrored in the model by the same Tensor.to cast", "unit_scale may rescale Linear weights by one positive scalar (documented re-initialisation)",
                 "histories are drawn as lists (shrinks like a rule-based state machine; replayable as data)"],
    shards={"quick": 8, "thorough": 14},
)

if __name__ == "__main__":
    main(CHECK)
