"""C17 - transforms are non-destructive and compose in any order."""
from __future__ import annotations

import copy
from unittest.mock import patch

from vlib import env  # noqa: F401
import torch
import torch.nn.functional as F
from hypothesis import strategies as st
from torch import nn

import unit_scaling as uu
import unit_scaling.functional as U
from unit_scaling.formats import FPFormat
from unit_scaling.transforms import compile as us_compile
from unit_scaling.transforms import simulate_format, simulate_fp8, track_scales, unit_scale
from vlib import dsl
from vlib.runner import CaseResult, Check, Part, exc_bucket, main

from checks.c15 import pinned  # order-independent substitute for torch.randint

FLOAT_INPUTS = ("x", "x2")
QUANTS = {
    "fp8": lambda m: simulate_fp8(m),
    "lossless": lambda m: simulate_format(m, FPFormat(8, 23, rounding="nearest"), FPFormat(8, 23, rounding="nearest")),
    "e5m2-nearest": lambda m: simulate_format(m, FPFormat(5, 2, rounding="nearest"), FPFormat(5, 2, rounding="nearest")),
    "e4m3-sr3": lambda m: simulate_format(m, FPFormat(4, 3, rounding="stochastic", srbits=3), FPFormat(5, 2, rounding="stochastic", srbits=3)),
}
QUANT_FORMATS = {
    "fp8": (FPFormat(4, 3), FPFormat(5, 2)),
    "lossless": (FPFormat(8, 23, rounding="nearest"), FPFormat(8, 23, rounding="nearest")),
    "e5m2-nearest": (FPFormat(5, 2, rounding="nearest"), FPFormat(5, 2, rounding="nearest")),
    "e4m3-sr3": (FPFormat(4, 3, rounding="stochastic", srbits=3), FPFormat(5, 2, rounding="stochastic", srbits=3)),
}


class UUBlock(nn.Module):
    """a module built from unit-scaled layers (unit_scale is not applied to these: it would scale twice)"""

    def __init__(self, h, heads, causal):
        super().__init__()
        self.norm = uu.RMSNorm(h)
        self.attn = uu.MHSA(h, heads, is_causal=causal)
        self.mlp = uu.MLP(h, expansion_factor=2)
        self.ln = uu.LayerNorm(h, elementwise_affine=True)

    def forward(self, x, g):
        r, s = U.residual_split(x, 0.5)
        r = self.attn(self.norm(r))
        x = U.residual_add(r, s, 0.5)
        x = x + 0.0
        y = U.residual_apply(lambda t: self.mlp(self.ln(t)), x, 0.3)
        return (y * g).sum()


@st.composite
def cases(draw, tier):
    family = draw(st.sampled_from(["program", "program", "program", "uu"]))
    c = dict(family=family, seed=draw(st.integers(0, 10**6)), calls=draw(st.integers(1, 3)), call_intermediates=draw(st.booleans()))
    c["nnroot"] = family == "program" and draw(st.integers(0, 4)) == 0
    c["freeze"] = draw(st.sampled_from([None, None, None, 2, 3])) if family == "program" else None
    q = draw(st.sampled_from([None] + list(QUANTS) * 2))
    if family == "program":
        c["prog"] = draw(dsl.unit_programs(max_ops=10))
        u = draw(st.sampled_from([True, True, True, False]))
        chain = (["unit_scale"] if u else []) + ([q] if q else [])
        if len(chain) == 2 and draw(st.booleans()):
            chain = chain[::-1]
    else:
        c["h"] = draw(st.sampled_from([4, 8]))
        c["heads"] = draw(st.sampled_from([1, 2]))
        c["causal"] = draw(st.booleans())
        chain = [q] if q else []
    if not chain:
        chain = [draw(st.sampled_from(list(QUANTS)))]
    c["chain"] = chain
    ends = [None, "track_scales"] + (["compile"] if tier == "thorough" and all(t == "unit_scale" for t in chain) and draw(st.integers(0, 9)) == 0 else [])
    c["end"] = draw(st.sampled_from(ends))
    return c


def apply(name, m):
    if name == "unit_scale":
        return unit_scale(m)
    if name == "track_scales":
        return track_scales(m)
    if name == "compile":
        return us_compile(m)
    return QUANTS[name](m)


def prep(inputs):
    # every call gets fresh tensors: track_scales (documented) sets requires_grad on the float inputs it is given
    # - and therefore *all* float inputs require grad in every run, so that PyTorch picks the same kernels with and without tracking
    return {k: (v.clone().requires_grad_() if v.is_floating_point() else v.clone()) for k, v in inputs.items()}


def run_once(m, inputs, call=None):
    fl = prep(inputs)
    for p in m.parameters():
        p.grad = None
    with patch("torch.randint", pinned):
        y = call(m, fl) if call else m(**fl)
        y.backward()
    grads = {n: (None if p.grad is None else p.grad.detach().clone()) for n, p in m.named_parameters()}
    grads.update({"input:" + k: (None if fl[k].grad is None else fl[k].grad.detach().clone()) for k in FLOAT_INPUTS if k in fl})
    return y.detach().clone(), grads


def bitequal(a, b):
    if a is None or b is None:
        return (a is None) == (b is None)
    return a.shape == b.shape and torch.equal(a.isnan(), b.isnan()) and torch.equal(a.nan_to_num(0.0), b.nan_to_num(0.0))


def same_result(r1, r2, tol=None):
    y1, g1 = r1
    y2, g2 = r2
    if tol is None:
        if not bitequal(y1, y2):
            return "output"
        for k in g1:
            if not bitequal(g1[k], g2.get(k)):
                return f"gradient of {k}"
        return None
    if not torch.allclose(y1, y2, rtol=tol, atol=tol):
        return "output"
    for k in g1:
        a, b = g1[k], g2.get(k)
        if (a is None) != (b is None) or (a is not None and not torch.allclose(a, b, rtol=tol, atol=tol * max(1.0, float(b.abs().max())))):
            return f"gradient of {k}"
    return None


def backend_kinds(m):
    out = []
    for b in getattr(m, "backends", []):
        q = getattr(b, "__qualname__", type(b).__name__)
        if "unit_scaling_backend" in q:
            out.append("unit_scale")
        elif "quantisation_backend" in q:
            out.append("quant")
        elif "ScaleTracking" in q:
            out.append("track_scales")
        elif "Inductor" in q or "Compile" in q:
            out.append("compile")
        else:
            out.append(q)
    return out


def run(c) -> CaseResult:
    res = CaseResult()
    torch.manual_seed(c["seed"])
    chain = list(c["chain"])
    full = chain + ([c["end"]] if c["end"] else [])
    res.labels += [f"family={c['family']}", "chain=" + ">".join(full), f"calls={c['calls']}"] + (["intermediates-called"] if c.get("call_intermediates") else [])
    if c["family"] == "program":
        prog = c["prog"]
        m0 = dsl.build_module(prog, c["seed"])
        if c.get("nnroot"):  # the program behind a root whose class is defined in torch.nn
            m0 = dsl.nn_root(m0)
            res.labels.append("root=nn.Sequential(program)")
        inputs = dsl.make_inputs(prog, c["seed"])
        src = m0._verif_source
        if c.get("freeze"):
            # a partly frozen model (fine-tuning): every k-th parameter does not require a gradient; at least one stays trainable
            ps = list(m0.parameters())
            for j, p_ in enumerate(ps):
                if len(ps) > 1 and j % c["freeze"] == 0:
                    p_.requires_grad_(False)
            res.labels.append("partly-frozen")
    else:
        prog = None
        m0 = UUBlock(c["h"], c["heads"], c["causal"])
        g = torch.Generator().manual_seed(c["seed"])
        inputs = dict(x=torch.randn(2, 4, c["h"], generator=g), g=torch.randn(2, 4, c["h"], generator=g))
        src = "UUBlock"
    call = (lambda mod, d: dsl.call(mod, prog, d, True)) if c.get("nnroot") and prog is not None else None

    def run_once_(mod, inp):
        return run_once(mod, inp, call)
    sd0 = {k: v.detach().clone() for k, v in m0.state_dict().items()}
    attrs0 = set(vars(m0).keys())
    r0 = run_once_(m0, inputs)
    mods = [m0]
    try:
        for t in full:
            if c.get("call_intermediates") and len(mods) > 1:
                run_once_(mods[-1], inputs)  # the intermediate module is used (compiled, cached) before it is transformed again
            mods.append(apply(t, mods[-1]))
        final = mods[-1]
        results = [run_once_(final, inputs) for _ in range(c["calls"])]
    except Exception as e:  # noqa: BLE001
        res.fail(exc_bucket("C17.raises:" + ">".join(full), e).replace("outside-library", "via-dynamo")[:300], f"{type(e).__name__}: {str(e)[:300]}\n{src}")
        return res
    # ---- original untouched
    for k, v in m0.state_dict().items():
        if not torch.equal(v, sd0[k]):
            res.fail("C17.original.state_dict", f"{k} of the original changed after {'>'.join(full)}")
            break
    if set(vars(m0).keys()) != attrs0:
        res.fail("C17.original.attributes", f"original gained attributes {sorted(set(vars(m0).keys()) - attrs0)}")
    d = same_result(r0, run_once_(m0, inputs))
    if d:
        res.fail("C17.original.behaviour", f"{d} of the original module changed after transforms {'>'.join(full)}\n{src}")
    # ---- no shared storage between any two modules of the chain
    seen = {}
    for i, mm in enumerate(mods):
        for n_, t in list(mm.named_parameters()) + list(mm.named_buffers()):
            if t.numel() == 0:
                continue
            key = t.data_ptr()
            if key in seen and seen[key][0] != i:
                res.fail("C17.shared-storage", f"{n_} of chain element {i} shares storage with {seen[key][1]} of element {seen[key][0]}")
                break
            seen[key] = (i, n_)
    # ---- repeated calls agree
    for i, r in enumerate(results[1:], 1):
        d = same_result(results[0], r)
        if d:
            res.fail("C17.repeat", f"call {i + 1} of the transformed module gives a different {d} ({'>'.join(full)})\n{src}")
            break
    # ---- backend list: each transform once, unit scaling before quantisation
    kinds = backend_kinds(final)
    want = sorted(["unit_scale" if t == "unit_scale" else ("track_scales" if t == "track_scales" else ("compile" if t == "compile" else "quant")) for t in full])
    if sorted(kinds) != want:
        res.fail("C17.backends.multiset", f"backends {kinds} after chain {full}")
    elif "unit_scale" in kinds and "quant" in kinds and kinds.index("unit_scale") > kinds.index("quant"):
        res.fail("C17.backends.order", f"quantisation precedes unit scaling in {kinds} (chain {full})")
    # ---- reference semantics: every transform applied exactly once (programs)
    qname = next((t for t in chain if t in QUANTS), None)
    if prog is not None:
        base = dsl.Unit if "unit_scale" in chain else dsl.Plain
        mode = dsl.quantised(base, *QUANT_FORMATS[qname]) if qname else base()
        P = dict(final.named_parameters())
        fr = prep(inputs)
        with patch("torch.randint", pinned):
            yr = dsl.evaluate(prog, dsl.named_tensors(final), fr, mode)
            live = {k: v for k, v in P.items() if v.requires_grad}   # (frozen parameters take no gradient)
            gr = torch.autograd.grad(yr, [fr[k] for k in FLOAT_INPUTS if k in fr] + list(live.values()), allow_unused=True)
        ref = (yr.detach(), {**{k: None for k in P}, **dict(zip(["input:" + k for k in FLOAT_INPUTS if k in fr] + list(live.keys()), gr))})
        lossy_sr = qname in ("fp8", "e4m3-sr3", "e5m2-nearest")
        # compared on the chain *without* its terminating track_scales / compile (those are covered by the end-transform clause)
        base_run = run_once_(mods[len(chain)], inputs) if c["end"] else results[0]
        d = same_result(base_run, ref, tol=None if lossy_sr or qname == "lossless" else 2e-5)
        if d:
            res.fail("C17.semantics:" + ">".join(sorted(set(chain), key=lambda t: t != "unit_scale")),
                     f"{d} of chain {'>'.join(full)} differs from 'each transform applied exactly once' (reference interpreter)\n{src}")
    else:
        if qname == "lossless":
            d = same_result(results[0], r0)
            if d:
                res.fail("C17.semantics:uu-lossless", f"{d}: lossless simulation of a unit-scaled block is not the identity")
    # ---- order equivalence
    if "unit_scale" in chain and qname:
        try:
            other = m0
            for t in chain[::-1]:
                other = apply(t, other)
            other.load_state_dict(mods[len(chain)].state_dict())
            ro = run_once_(other, inputs)
            base_result = run_once_(mods[len(chain)], inputs)
            d = same_result(base_result, ro)
            if d:
                res.fail("C17.order-dependent", f"{d} differs between {'>'.join(chain)} and {'>'.join(chain[::-1])} with synchronised parameters\n{src}")
        except Exception as e:  # noqa: BLE001
            res.fail(exc_bucket("C17.raises:" + ">".join(chain[::-1]), e).replace("outside-library", "via-dynamo")[:300], f"{type(e).__name__}: {str(e)[:300]}")
    # ---- track_scales / compile at the end change nothing
    if c["end"]:
        rb = run_once_(mods[len(chain)], inputs)
        # compile (inductor) may fuse and re-associate float32 reductions: the input gradient of a layer norm is a difference of such
        # sums (seen: 2e-5 relative, 1 of 2060 thorough cases) - float32-level agreement, as in C20
        tol_end = None if c["end"] == "track_scales" else 1e-4
        if c["end"] == "track_scales":
            # tracking can change gradients in the last ulps (accumulation order, contiguous copies: C18's known finding); with a
            # lossy quantiser in the chain one ulp can flip a rounding decision, so the comparison is made without one only
            tol_end = "skip" if (qname and qname != "lossless") else 1e-5
        d = None if tol_end == "skip" else same_result(rb, results[0], tol=tol_end)
        if d:
            res.fail(f"C17.end-transform-changes-result:{c['end']}", f"{d} differs with {c['end']} appended to {'>'.join(chain)}\n{src}")
    res.nontrivial = len(full) >= 2
    res.sample = dict(chain=full, source=src)
    return res


# ------------------------------------------------------------------ many instances of ONE model class, each nested-transformed


@st.composite
def repeat_cases(draw, tier):
    return dict(prog=draw(dsl.unit_programs(max_ops=5)), seed=draw(st.integers(0, 10**6)), n=10,
                chain=draw(st.sampled_from([["unit_scale", "e5m2-nearest"], ["e5m2-nearest", "unit_scale"], ["unit_scale", "lossless"]])))


def run_repeat(c) -> CaseResult:
    res = CaseResult()
    prog = c["prog"]
    cls = dsl.build_class(prog)
    qname = next(t for t in c["chain"] if t in QUANTS)
    for k in range(c["n"]):
        m = dsl.build_module(prog, c["seed"] + k, cls=cls)
        inputs = dsl.make_inputs(prog, c["seed"] + k)
        try:
            final = m
            for t in c["chain"]:
                final = apply(t, final)
            r = run_once(final, inputs)
        except Exception as e:  # noqa: BLE001
            res.fail(exc_bucket("C17.repeat.raises", e).replace("outside-library", "via-dynamo")[:300], f"instance #{k + 1}: {type(e).__name__}: {str(e)[:200]}")
            return res
        mode = dsl.quantised(dsl.Unit, *QUANT_FORMATS[qname])
        P = dict(final.named_parameters())
        fr = prep(inputs)
        yr = dsl.evaluate(prog, dsl.named_tensors(final), fr, mode)
        gr = torch.autograd.grad(yr, [fr[k_] for k_ in FLOAT_INPUTS if k_ in fr] + list(P.values()), allow_unused=True)
        ref = (yr.detach(), dict(zip(["input:" + k_ for k_ in FLOAT_INPUTS if k_ in fr] + list(P.keys()), gr)))
        d = same_result(r, ref)
        if d:
            res.fail("C17.repeat.semantics", f"instance #{k + 1} of the same model class after {'>'.join(c['chain'])}: {d} differs from 'each transform applied exactly once' "
                     f"(earlier instances agreed)\n{cls._verif_source}")
            return res
    res.nontrivial = True
    res.labels.append("same-class-x10")
    return res


CHECK = Check(
    id="C17",
    parts=[Part("chains", run, strategy=cases, budget={"quick": 160, "thorough": 4000}),
           Part("repeat", run_repeat, strategy=repeat_cases, budget={"quick": 6, "thorough": 60})],
    rule=("Hypothesis histories: a module (DSL program over torch ops, or a block built from unit-scaled layers) x a chain using unit_scale at most "
          "once and at most one format simulation (simulate_fp8, lossless E8M23, E5M2-nearest, stochastic E4M3 with srbits=3; random source pinned) "
          "in either order (each intermediate module optionally called before it is transformed again), optionally ended by track_scales (or compile, thorough only, unit_scale-only chains), followed by 1-3 "
          "forward/backward calls. Invariants: original state_dict / attributes / outputs / gradients unchanged; no parameter or buffer storage "
          "shared between chain elements; repeated calls bit-equal; backends contain each transform exactly once with unit scaling before "
          "quantisation; result equals the reference interpreter applying each transform exactly once (bit-equal with quantisation, 2e-5 "
          "otherwise); swapped order bit-equal after load_state_dict; track_scales appended changes nothing (compile: 1e-5). "
          "Non-trivial = chain length >= 2."),
    assumptions=["unit_scale is not applied to modules already built from unit-scaled layers (would scale twice: not claimed by the library)",
                 "compile-terminated chains only in the thorough tier (7-18 s each) and never together with format simulation (documented unsupported)",
                 "histories drawn as lists (replayable as data)"],
    shards={"quick": 8, "thorough": 14},
    time_budget={"quick": 300.0, "thorough": 3000.0},
)

if __name__ == "__main__":
    main(CHECK)
