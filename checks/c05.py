"""C05 - a constraint collapses forward and backward scales to one value (true gradients)."""
from __future__ import annotations

import math
import statistics
from fractions import Fraction

from vlib import env  # noqa: F401
import torch
from hypothesis import strategies as st

import unit_scaling.constraints as UC
import unit_scaling.functional as U
from vlib import probes as pb
from vlib.runner import CaseResult, Check, Part, exc_bucket, main

MEANS = {
    "gmean": statistics.geometric_mean,
    "hmean": statistics.harmonic_mean,
    "amean": statistics.fmean,
}
SELECT = {"to_output_scale": 0, "to_grad_input_scale": 1, "to_left_grad_scale": 1, "to_right_grad_scale": 2}
VALID = ["gmean", "hmean", "amean", "to_output_scale", "to_grad_input_scale", "to_left_grad_scale", "to_right_grad_scale"]


def rule(name, scales):
    if name in MEANS:
        return MEANS[name](scales)
    return scales[SELECT[name]]


# ------------------------------------------------------------------ (a) rule functions

scale_st = st.floats(math.log(1e-6), math.log(1e6)).map(lambda v: math.exp(v)) | st.sampled_from([1e-6, 1e6, 1.0, 0.5, 2.0])


@st.composite
def rule_cases(draw, tier):
    n = draw(st.integers(1, 6))
    sc = [draw(scale_st) for _ in range(n)]
    perm = draw(st.permutations(list(range(n))))
    return dict(scales=sc, perm=perm)


def run_rules(case) -> CaseResult:
    res = CaseResult()
    sc = case["scales"]
    n = len(sc)
    perm = [sc[i] for i in case["perm"]]
    lo, hi = min(sc), max(sc)
    got = {}
    for name in ("gmean", "hmean", "amean"):
        f = getattr(UC, name)
        try:
            v = f(*sc)
            vp = f(*perm)
        except Exception as e:  # noqa: BLE001
            res.fail(exc_bucket(f"C05.rule.raises:{name}", e), f"{e}")
            continue
        got[name] = v
        ref = MEANS[name](sc)
        if not abs(v - ref) <= 1e-12 * abs(ref):
            res.fail(f"C05.rule.value:{name}", f"{name}{tuple(sc)} = {v!r}, statistics module gives {ref!r}")
        if not abs(v - vp) <= 1e-12 * abs(v):
            res.fail(f"C05.rule.symmetric:{name}", f"{v!r} vs {vp!r} after permutation")
        if not (lo * (1 - 1e-12) <= v <= hi * (1 + 1e-12)):
            res.fail(f"C05.rule.between:{name}", f"{v!r} not in [{lo!r}, {hi!r}]")
    # exact comparison of the three means (Fractions for amean/hmean, exact n-th power comparison for gmean)
    fr = [Fraction(s) for s in sc]
    am = sum(fr) / n
    hm = n / sum(1 / f for f in fr)
    prod = Fraction(1)
    for f in fr:
        prod *= f
    assert hm**n <= prod <= am**n  # the mathematical inequality (harness sanity)
    if len(got) == 3 and not (got["hmean"] <= got["gmean"] * (1 + 1e-12) and got["gmean"] <= got["amean"] * (1 + 1e-12)):
        res.fail("C05.rule.order", f"hmean {got['hmean']!r} <= gmean {got['gmean']!r} <= amean {got['amean']!r} violated")
    if "amean" in got and not abs(got["amean"] - float(am)) <= 1e-12 * float(am):
        res.fail("C05.rule.value:amean", f"{got['amean']!r} vs exact {float(am)!r}")
    if "hmean" in got and not abs(got["hmean"] - float(hm)) <= 1e-12 * float(hm):
        res.fail("C05.rule.value:hmean", f"{got['hmean']!r} vs exact {float(hm)!r}")
    # selectors and apply_constraint
    try:
        if UC.to_output_scale(*sc) != sc[0]:
            res.fail("C05.rule.selector:to_output_scale", "")
        if n == 2 and UC.to_grad_input_scale(*sc) != sc[1]:
            res.fail("C05.rule.selector:to_grad_input_scale", "")
        if n == 3 and (UC.to_left_grad_scale(*sc) != sc[1] or UC.to_right_grad_scale(*sc) != sc[2]):
            res.fail("C05.rule.selector:to_left/right_grad_scale", "")
        for name in (None, ""):
            out = UC.apply_constraint(name, *sc)
            if tuple(out) != tuple(sc):
                res.fail("C05.apply.none", f"apply_constraint({name!r}, ...) changed the scales: {out}")
        names = ["gmean", "hmean", "amean", "to_output_scale"] + (["to_grad_input_scale"] if n == 2 else []) + \
            (["to_left_grad_scale", "to_right_grad_scale"] if n == 3 else [])
        for name in names:
            out = UC.apply_constraint(name, *sc)
            want = rule(name, sc)
            if not (isinstance(out, tuple) and len(out) == n and all(o == out[0] for o in out) and abs(out[0] - want) <= 1e-12 * abs(want)):
                res.fail(f"C05.apply.value:{name}", f"apply_constraint({name!r}, {sc}) = {out}, expected {n} x {want!r}")
    except Exception as e:  # noqa: BLE001
        res.fail(exc_bucket("C05.apply.raises", e), f"{e}")
    res.nontrivial = n >= 2 and hi / lo > 1.01
    res.labels.append(f"n={n}")
    return res


# ------------------------------------------------------------------ (b) unknown names

MODULE_ATTRS = sorted(a for a in dir(UC) if a not in VALID)


@st.composite
def name_cases(draw, tier):
    kind = draw(st.sampled_from(["text", "variant", "attr", "attr", "near"]))
    if kind == "text":
        name = draw(st.text(min_size=1, max_size=12))
    elif kind == "variant":
        base = draw(st.sampled_from(VALID))
        name = draw(st.sampled_from([base.upper(), base.capitalize(), " " + base, base + " ", base + "\n", base.replace("_", "-"),
                                     base + "s", base[:-1], "_" + base, base + "_", "UC." + base]))
    elif kind == "attr":
        name = draw(st.sampled_from(MODULE_ATTRS))
    else:
        name = draw(st.sampled_from(["mean", "max", "min", "geometric_mean", "to_input_scale", "to_grad_scale", "none", "None",
                                     "to_output", "scale", "sum", "float", "len", "abs", "tuple", "print"]))
    n = draw(st.integers(1, 3))
    return dict(name=name, scales=[draw(scale_st) for _ in range(n)], via=draw(st.sampled_from(["apply", "linear", "gelu", "add"])))


def run_names(case) -> CaseResult:
    res = CaseResult()
    name = case["name"]
    if name in VALID or name == "":
        res.labels.append("valid-name(skipped)")
        return res
    res.labels.append("via=" + case["via"])

    def call():
        if case["via"] == "apply":
            return UC.apply_constraint(name, *case["scales"])
        if case["via"] == "linear":
            return U.linear(torch.ones(2, 3), torch.ones(4, 3), None, constraint=name)
        if case["via"] == "gelu":
            return U.gelu(torch.ones(3), constraint=name)
        return U.add(torch.ones(3), torch.ones(3), constraint=name)
    try:
        out = call()
    except ValueError:
        res.nontrivial = True
        if name in MODULE_ATTRS:
            res.labels.append("module-attribute-name")
        return res
    except Exception as e:  # noqa: BLE001
        res.fail(f"C05.unknown-name:{'module-attr' if name in MODULE_ATTRS else 'other'}:{type(e).__name__}",
                 f"constraint name {name!r} raised {type(e).__name__}: {e} instead of ValueError")
        return res
    res.fail(f"C05.unknown-name:{'module-attr' if name in MODULE_ATTRS else 'other'}:accepted", f"constraint name {name!r} accepted, returned {str(out)[:80]}")
    return res


# ------------------------------------------------------------------ (c) ops

OPS_C = list(pb.CONSTRAINED) + ["silu_glu", "sdpa", "sdpa", "add"]  # (add and attention have the most branches: weighted up)
SCALE_ROLES = {"gelu": ["input"], "silu": ["input"], "softmax": ["input"], "linear": ["input"], "linear_readout": ["input"],
               "conv1d": ["input"], "matmul": ["left", "right"], "add": ["input", "other"]}


@st.composite
def op_cases(draw, tier):
    c = draw(pb.op_cases(ops=OPS_C, dtypes=["float64"], constraint="none", profiles=["normal"]))
    if c["op"] == "softmax":
        c["sm_dtype"] = None
    if c["op"] == "add":
        if not isinstance(c["a"], list):
            c["a"] = c["b"] if isinstance(c["b"], list) else [2, 3]
        if not isinstance(c["b"], list):
            c["b"] = c["a"]
    return c


def gradcheck_inputs(c, roles_wanted):
    bu = pb.build(c, c["seedA"])
    ts = [t.clone().requires_grad_(role in roles_wanted) for role, t in zip(bu.roles, bu.ts)]
    try:
        return bool(torch.autograd.gradcheck(bu.u, ts, eps=1e-6, atol=1e-6, rtol=1e-4, raise_exception=False, check_undefined_grad=False,
                                             check_batched_grad=False, check_grad_dtypes=False, check_backward_ad=True))
    except Exception as e:  # noqa: BLE001
        return e


def run_ops(case) -> CaseResult:
    res = CaseResult()
    op = case["op"]
    res.labels.append(f"op={op}")
    if op in ("silu_glu", "sdpa"):
        ok = gradcheck_inputs(case, set(pb.build(case, case["seedA"]).constrained))
        if ok is not True:
            res.fail(f"C05.gradcheck:{op}", f"gradcheck failed for the fixed-constraint op: {ok}")
        res.nontrivial = True
        return res
    base = dict(case, constraint=None)
    P0 = pb.probe(base, seeds=[case["seedA"]])
    if P0.status != "ok" or P0.fwd_fails or P0.bwd_fails:
        res.labels.append("probe-" + P0.status)
        return res
    roles = SCALE_ROLES[op]
    if op == "add" and "scalar" in (case["a"], case["b"]):
        return res
    if any(r not in P0.s_bwd for r in roles):
        # (a one-element operand, a frozen operand: no scalar can be fitted) - the true-derivative clause still applies
        res.labels.append("grad-not-fitable")
        for name in [n for n in pb.CONSTRAINED[op] if n not in (None, "")]:
            ok = gradcheck_inputs(dict(case, constraint=name), set(roles))
            if ok is not True:
                res.fail(f"C05.gradcheck:{op}:{name}", f"gradients of the constrained inputs are not the true derivative: {ok}")
        res.nontrivial = True
        return res
    ideal = [P0.s_fwd[0]] + [P0.s_bwd[r][0] for r in roles]
    other0 = {r: v[0] for r, v in P0.s_bwd.items() if r not in roles}
    spread = max(ideal) / min(ideal)
    res.nontrivial = spread > 1.01
    names = [n for n in pb.CONSTRAINED[op] if n not in (None, "")]
    for name in names + [""]:
        cc = dict(case, constraint=name)
        P = pb.probe(cc, seeds=[case["seedA"]])
        if P.status != "ok":
            continue
        for b, m in P.fwd_fails + P.bwd_fails:
            if ":raises:" in b:
                res.fail(f"C05.{b}:constraint={name}", m)
        if P.fwd_fails or P.bwd_fails or any(r not in P.s_bwd for r in roles):
            continue
        got = [P.s_fwd[0]] + [P.s_bwd[r][0] for r in roles]
        if name == "":
            want = ideal
        else:
            w = rule(name, ideal)
            want = [w] * len(ideal)
        for label, g, w in zip(["output"] + roles, got, want):
            if not abs(g - w) <= 1e-9 * abs(w):
                res.fail(f"C05.scale:{op}:{name or 'empty'}:{label}", f"fitted {label} scale {g!r}, rule({name!r}) on unconstrained scales {ideal} gives {w!r}")
        for r, v in other0.items():
            if r in P.s_bwd and not abs(P.s_bwd[r][0] - v) <= 1e-9 * abs(v):
                res.fail(f"C05.weight-scale-changed:{op}:{r}", f"{r} gradient scale {P.s_bwd[r][0]!r} under {name!r} vs {v!r} under None")
        # the forward scale is the constrained one whether or not the operands take part in autograd (inference, data inputs)
        try:
            bq = pb.build(cc, case["seedA"])
            y_plain = bq.u(*[t.clone() for t in bq.ts])
            y_grad = bq.u(*[t.clone().requires_grad_() for t in bq.ts])
            with torch.no_grad():
                y_ng = bq.u(*[t.clone() for t in bq.ts])
            ref_ = y_grad.detach()
            sc_ = max(1e-300, float(ref_.abs().max()))
            for how, yv in (("operands without requires_grad", y_plain), ("torch.no_grad()", y_ng)):
                if not bool(((yv.detach() - ref_).abs() <= 1e-12 * sc_).all()):
                    res.fail(f"C05.forward-scale-depends-on-autograd:{op}:{name or 'empty'}",
                             f"with constraint {name!r} the output for {how} differs from the output for operands that require a gradient "
                             f"(ratio {float(yv.detach().flatten()[0] / ref_.flatten()[0]) if float(ref_.flatten()[0]) != 0 else float('nan'):.6g})")
                    break
        except Exception as e:  # noqa: BLE001
            res.fail(exc_bucket(f"C05.raises:no-autograd:{op}", e), f"{type(e).__name__}: {e}")
        if name:
            ok = gradcheck_inputs(cc, set(roles))
            if ok is not True:
                res.fail(f"C05.gradcheck:{op}:{name}", f"gradients of the constrained inputs are not the true derivative: {ok}")
    if spread > 1.2:
        res.labels.append("ideal-scales-differ")
    return res


# ------------------------------------------------------------------ (d) the fixed-constraint residual ops


@st.composite
def residual_cases(draw, tier):
    shape = draw(st.lists(st.integers(1, 4), min_size=1, max_size=3))
    tau = draw(st.sampled_from([0.25, 0.5, 1.0, 2.0, 0.01, 4.0, 1, 2]) | st.floats(0.01, 8.0).map(lambda v: round(v, 4)))
    return dict(shape=shape, tau=tau, branch=draw(st.sampled_from(["tanh", "linear", "mulc", "pool", "square", "sin+param"])),
                via=draw(st.sampled_from(["split-add", "split-add-kw", "apply"])), seed=draw(st.integers(0, 10**6)), blocks=draw(st.integers(1, 2)))


def run_residual(c) -> CaseResult:
    """residual_split -> f -> residual_add (and residual_apply): the gradient with respect to the stream is the true derivative
    of the function actually computed"""
    res = CaseResult()
    g = torch.Generator().manual_seed(c["seed"])
    x = torch.randn(c["shape"], generator=g, dtype=torch.float64).requires_grad_()
    h = c["shape"][-1]
    # (the branch's own parameters are NOT checked: by design their gradients skip the forward-only tau factor applied in residual_add)
    w = torch.randn(h, h, generator=g, dtype=torch.float64) / math.sqrt(h)
    tau = c["tau"]
    res.labels += [f"branch={c['branch']}", f"via={c['via']}", f"blocks={c['blocks']}"]

    def f(r, w_):
        k = c["branch"]
        if k == "tanh":
            return torch.tanh(r)
        if k == "linear":
            return r @ w_.T
        if k == "mulc":
            return -1.5 * r
        if k == "pool":
            return r.mean(-1, keepdim=True)   # broadcast against the skip
        if k == "square":
            return 0.5 * r * r
        return torch.sin(r) + w_[0]

    def block(t, w_):
        if c["via"] == "apply":
            return U.residual_apply(lambda r: f(r, w_), t, tau)
        if c["via"] == "split-add-kw":
            r, sk = U.residual_split(input=t, tau=tau)
            return U.residual_add(residual=f(r, w_), skip=sk, tau=tau)
        r, sk = U.residual_split(t, tau)
        return U.residual_add(f(r, w_), sk, tau)

    def fn(x_, w_):
        y = x_
        for _ in range(c["blocks"]):
            y = block(y, w_)
        return y
    try:
        ok = bool(torch.autograd.gradcheck(lambda x_: fn(x_, w), (x,), eps=1e-6, atol=1e-6, rtol=1e-4, raise_exception=False, check_undefined_grad=False,
                                           check_batched_grad=False, check_grad_dtypes=False))
    except Exception as e:  # noqa: BLE001
        res.fail(exc_bucket("C05.gradcheck.raises:residual", e), f"{type(e).__name__}: {e}")
        return res
    if not ok:
        res.fail(f"C05.gradcheck:residual:{c['via']}", f"gradients through residual_split / residual_add (tau={tau!r}, branch {c['branch']}, {c['blocks']} block(s), "
                 f"shape {c['shape']}) are not the true derivative of the function computed")
    res.nontrivial = tau != 1
    return res


class _Mismatch(torch.autograd.Function):
    """harness-side op whose backward is deliberately not the derivative of its forward"""

    @staticmethod
    def forward(ctx, x):
        return 0.5 * x

    @staticmethod
    def backward(ctx, g):
        return 0.25 * g


def selftest():
    # teeth: gradcheck with the settings used above must reject a forward/backward scale mismatch
    x = torch.randn(3, 2, dtype=torch.float64, requires_grad=True)
    ok = torch.autograd.gradcheck(_Mismatch.apply, (x,), eps=1e-6, atol=1e-6, rtol=1e-4, raise_exception=False)
    assert ok is False, "gradcheck clause has no teeth"
    ok = torch.autograd.gradcheck(lambda t: 0.5 * t, (x,), eps=1e-6, atol=1e-6, rtol=1e-4, raise_exception=False)
    assert ok is True


CHECK = Check(
    id="C05",
    parts=[Part("rules", run_rules, strategy=rule_cases, budget={"quick": 2000, "thorough": 40000}),
           Part("names", run_names, strategy=name_cases, budget={"quick": 1000, "thorough": 20000}),
           Part("ops", run_ops, strategy=op_cases, budget={"quick": 500, "thorough": 12000}),
           Part("residual", run_residual, strategy=residual_cases, budget={"quick": 300, "thorough": 10000})],
    rule=("rules: 1-6 scales log-uniform in [1e-6,1e6] (+ end points), a permutation; means vs statistics module and Fractions; "
          "names: arbitrary text, case/whitespace variants of valid names, every non-constraint attribute of the constraints module, "
          "via apply_constraint and via ops; ops: shapes as C01 (float64) for every constrained op x every valid constraint name: "
          "fitted forward/backward scalars vs the rule applied to the scalars fitted under None, weight/bias scalars unchanged, "
          "torch.autograd.gradcheck on constrained inputs; residual: residual_split -> branch -> residual_add / residual_apply (1-2 blocks, tau in [0.01,8], "
          "six branch functions incl. a broadcasting one) under gradcheck with respect to the stream. Non-trivial: rules with >= 2 scales differing by > 1%; names rejected with "
          "ValueError; ops whose ideal scales differ by > 1%; residual cases with tau != 1."),
    assumptions=["statistics.geometric_mean/harmonic_mean/fmean and Fractions are the reference for the mean rules",
                 "gradcheck: float64, eps 1e-6, atol 1e-6, rtol 1e-4; self-test proves it rejects a harness-side op with mismatched forward/backward scales"],
    shards={"quick": 12, "thorough": 14},
    selftest=selftest,
    time_budget={"quick": 400.0, "thorough": 3000.0},
)

if __name__ == "__main__":
    main(CHECK)
