"""C18 - scale tracking is purely observational; its metrics are the true statistics."""
from __future__ import annotations

import math
import re

from vlib import env  # noqa: F401
import torch
from hypothesis import strategies as st
from torch import fx

from unit_scaling.transforms import track_scales
from unit_scaling.utils import _DeepTracer, analyse_module
from vlib import dsl, tracking
from vlib.runner import CaseResult, Check, Part, exc_bucket, main


@st.composite
def cases(draw, tier):
    return dict(prog=draw(dsl.track_programs()), seed=draw(st.integers(0, 10**6)), backward=draw(st.sampled_from([True, True, True, False])),
                warmup=draw(st.sampled_from([None, None, "backward", "forward-only"])), nnroot=draw(st.integers(0, 5)) == 0, dtype=draw(st.sampled_from(["float32", "float32", "float32", "float64"])),
                upstream=draw(st.sampled_from([False, False, False, True])), double=draw(st.sampled_from([False, False, True])))


def bitequal(a, b):
    if a is None or b is None:
        return (a is None) == (b is None)
    return a.shape == b.shape and a.dtype == b.dtype and torch.equal(a.isnan() if a.is_floating_point() else a, b.isnan() if b.is_floating_point() else b) and \
        torch.equal(a.nan_to_num(0.0) if a.is_floating_point() else a, b.nan_to_num(0.0) if b.is_floating_point() else b)


def run_module(m, inputs, backward, set_requires_grad, call=None, upstream=False):
    ins = {k: (v.clone().requires_grad_() if (v.is_floating_point() and set_requires_grad) else v.clone()) for k, v in inputs.items()}
    leaves = ins
    if upstream:
        # the module is fed by a differentiable upstream computation (tracking a sub-block of a larger model): its float inputs are
        # non-leaf tensors, and the gradient must still reach what produced them
        leaves = {k: (v.clone().requires_grad_() if v.is_floating_point() else v.clone()) for k, v in inputs.items()}
        ins = {k: (v * 1.0 if v.is_floating_point() else v) for k, v in leaves.items()}
    for p in m.parameters():
        p.grad = None
    y = call(m, ins) if call else m(**ins)
    outs = y if isinstance(y, tuple) else (y,)
    if backward:
        loss = sum(o.sum() for o in outs if o.is_floating_point() and o.requires_grad)
        if isinstance(loss, torch.Tensor):
            loss.backward()
    pg = {n: (None if p.grad is None else p.grad.detach().clone()) for n, p in m.named_parameters()}
    ig = {k: (None if (not v.is_floating_point() or v.grad is None) else v.grad.detach().clone()) for k, v in leaves.items()}
    return outs, pg, ig


def features(prog):
    f = set()
    uses = {}
    for s in prog["stmts"]:
        for i in dsl.stmt_inputs(s):
            uses[i] = uses.get(i, 0) + 1
        if s["op"] in ("intop", "argmax"):
            f.add("non-float-intermediate")
        if s["op"] == "shape" and s["kind"] in ("rotate_half", "slice_cat", "stack_sum"):
            f.add("list-consumer")
        if s["op"] == "shape" and s["kind"] == "index":
            f.add("index-tensor")
        if s["op"] == "linear" and s["spell"] == "kwweight":
            f.add("keyword-tensor-arg")
        if s["op"] == "detach":
            f.add("detach")
    if any(v >= 2 for v in uses.values()):
        f.add("fan-out")
    if prog["ret"]["kind"] == "tuple" and len(prog["ret"]["vars"]) > 1:
        f.add("multi-output")
    return sorted(f)


def run(c) -> CaseResult:
    res = CaseResult()
    prog = c["prog"]
    feats = features(prog)
    res.labels += feats + (["backward"] if c["backward"] else ["forward-only"])
    m = dsl.build_module(prog, c["seed"])
    dt = torch.float64 if c.get("dtype") == "float64" else torch.float32
    if dt == torch.float64:
        m = m.double()
        m._verif_source = "# module.double(), float64 inputs\n" + dsl.build_class(prog)._verif_source
        res.labels.append("dtype=float64")
    call = None
    if c.get("nnroot"):  # the program behind a root whose class is defined in torch.nn
        m = dsl.nn_root(m)
        res.labels.append("root=nn.Sequential(program)")

        def call(mod, d):
            return dsl.call(mod, prog, d, True)
    src = m._verif_source
    inputs = dsl.make_inputs(prog, c["seed"], dtype=dt)
    # track_scales (documented) sets requires_grad on the float *tensors* it is called with; behind the nn.Sequential root the
    # arguments travel as one tuple, which it does not look into - there the harness sets the flag itself, as a caller would
    own_rg = bool(c.get("nnroot"))
    ups = bool(c.get("upstream"))
    if ups:
        res.labels.append("non-leaf-inputs")
    outs0, pg0, ig0 = run_module(m, inputs, c["backward"], True, call, ups)
    # ---- (a) bit-identical outputs and gradients
    try:
        tm = track_scales(m)
        if c.get("warmup"):
            # an earlier call of the same tracked module (other inputs): the metrics must describe the *last* call only
            run_module(tm, dsl.make_inputs(prog, c["seed"] + 1, dtype=dt), c["warmup"] == "backward", own_rg, call)
            res.labels.append("second-call-after-" + c["warmup"])
        outs1, pg1, ig1 = run_module(tm, inputs, c["backward"], own_rg or ups, call, ups)
        graph = tm.scales_graph()
    except Exception as e:  # noqa: BLE001
        res.fail(exc_bucket("C18.raises", e).replace("outside-library", "via-dynamo")[:300], f"{type(e).__name__}: {str(e)[:300]}\n{src}")
        return res
    if len(outs0) != len(outs1) or not all(bitequal(a.detach(), b.detach()) for a, b in zip(outs0, outs1)):
        res.fail("C18.observational.outputs", f"track_scales changed the outputs\n{src}")
    if c["backward"]:
        fan = dsl.grad_fanout(prog)

        def grad_clause(kind, k, a, b):
            if bitequal(a, b):
                return False
            if a is not None and b is not None and a.shape == b.shape and \
                    bool(((a - b).abs() <= 4e-6 * max(1e-30, float(a.abs().max()))).all()):
                # last-ulp differences: the inserted autograd nodes change the order in which >= 3 gradient contributions to one
                # tensor are accumulated, and the copies they make turn expanded / strided gradients into contiguous ones, which
                # selects other matmul kernels
                res.fail("C18.observational.last-ulp", f"gradient of {kind} {k} differs in the last ulps with tracking on "
                         f"(max {float((a - b).abs().max()):.3g} on {float(a.abs().max()):.3g}; largest gradient fan-out in the graph {fan})\n{src}")
            else:
                res.fail(f"C18.observational.{kind}-grad", f"gradient of {kind} {k} differs with tracking on\n{src}")
            return True
        for k in pg0:
            if grad_clause("param", k, pg0[k], pg1.get(k)):
                break
        for k in ig0:
            if grad_clause("input", k, ig0[k], ig1.get(k)):
                break
    # ---- (a') second-order use (gradient penalty / Hessian-vector product): differentiating THROUGH the backward pass of the tracked
    # module gives the untracked module's parameter gradients (float32-level agreement: the double-backward graphs differ in order)
    # (programs that call the library's own scale_fwd / scale_bwd are left out: TorchDynamo turns an autograd.Function it traces into
    # a higher-order op whose backward is not differentiable again, so second-order gradients through them differ under ANY
    # Dynamo-based transform - observed, 59-76% - which is outside the property's "forward-only and forward+backward runs")
    uses_primitives = any(s_["op"] == "ew" and s_["fn"] in ("scale_fwd", "scale_bwd") for s_ in prog["stmts"])
    if c.get("double") and c["backward"] and not c.get("nnroot") and not ups and not uses_primitives:
        def second(mod):
            ins = {k: (v.clone().requires_grad_() if v.is_floating_point() else v.clone()) for k, v in inputs.items()}
            yy = mod(**ins)
            oo = yy if isinstance(yy, tuple) else (yy,)
            tot = sum(o.sum() for o in oo if o.is_floating_point() and o.requires_grad)
            leaves = [v for v in ins.values() if v.is_floating_point()]
            g1 = torch.autograd.grad(tot, leaves, create_graph=True, allow_unused=True)
            pen = sum((gi ** 2).sum() for gi in g1 if gi is not None and gi.requires_grad)
            if not isinstance(pen, torch.Tensor):
                return None
            ps = [p for p in mod.parameters() if p.requires_grad]
            return torch.autograd.grad(pen, ps, allow_unused=True)
        try:
            ref2 = second(m)
        except Exception:  # noqa: BLE001  (an op of this program has no double backward: nothing to compare)
            ref2 = None
        if ref2 is not None:
            try:
                got2 = second(track_scales(m))   # (a separate tracked instance: the metrics of `tm` are compared below)
                for a2, b2 in zip(got2, ref2):
                    if a2 is None or b2 is None:
                        # (a gradient that does not exist and one that is identically zero are the same statement)
                        other_ = b2 if a2 is None else a2
                        if other_ is not None and bool((other_ != 0).any()):
                            res.fail("C18.observational.second-order-grad", f"a second-order parameter gradient exists only with / only without tracking\n{src}")
                            break
                        continue
                    if not torch.allclose(a2, b2, rtol=1e-4, atol=1e-6 * max(1.0, float(b2.abs().max()))):
                        res.fail("C18.observational.second-order-grad", f"parameter gradients of a gradient penalty (double backward) differ with tracking on\n{src}")
                        break
                res.labels.append("double-backward")
            except Exception as e:  # noqa: BLE001
                res.fail(exc_bucket("C18.raises.double-backward", e).replace("outside-library", "via-dynamo")[:300], f"{type(e).__name__}: {str(e)[:300]}\n{src}")
    # ---- (b) metrics == statistics of independently captured tensors
    store, graphs, _, _ = tracking.capture(m, inputs, backward=c["backward"], call=call)
    names = [n.name for n in graph.nodes]
    if len(graphs) != 1 or names != [n.name for n in graphs[0].graph.nodes]:
        res.fail("C18.graph-differs", f"scales_graph() nodes {names[:8]}... differ from the graph Dynamo captures for the same module\n{src}")
        return res
    n_float = 0
    for n in graph.nodes:
        if n.op == "output":
            continue
        mt = n.meta.get("metrics")
        rec = store.get(n.name)
        if (mt is None) != (rec is None):
            res.fail("C18.metrics.presence:" + ("missing" if mt is None else "non-float-instrumented"),
                     f"node {n.name}: metrics {'absent' if mt is None else 'present'} but the tensor is {'float' if rec is not None else 'not float'}\n{src}")
            continue
        if mt is None:
            continue
        n_float += 1
        for direction in ("fwd", "bwd"):
            d = getattr(mt, direction)
            t = rec[direction]
            if (d is None) != (t is None):
                res.fail(f"C18.metrics.{direction}-presence", f"node {n.name}: {direction} metrics {'absent' if d is None else 'present'} but the captured "
                         f"{'gradient' if direction == 'bwd' else 'value'} is {'absent' if t is None else 'present'}\n{src}")
                continue
            if d is None:
                continue
            want = tracking.stats(t)
            for k, v in want.items():
                lv = getattr(d, k)
                if not tracking.close(lv, v, scale=want["abs_max"] if k in ("abs_mean", "std") else 0.0):
                    res.fail(f"C18.metrics.{direction}.{k}", f"node {n.name}: recorded {k}={lv!r}, the tensor that flowed there has {v!r}\n{src}")
    res.nontrivial = bool(c["backward"] and ({"fan-out", "non-float-intermediate"} & set(feats)))
    res.sample = dict(source=src, float_nodes=n_float)
    return res


# ------------------------------------------------------------------ analyse_module


@st.composite
def analyse_cases(draw, tier):
    prog = draw(dsl.track_programs(max_ops=8))
    if prog["ret"]["kind"] == "tuple":
        prog["ret"] = dict(kind="dot", var=prog["ret"]["vars"][0])
    return dict(prog=prog, seed=draw(st.integers(0, 10**6)))


LINE = re.compile(r"^\s*(\w+) = .*;\s+\(-> ([^,]+), <- ([^)]+)\)\s*$")


def run_analyse(c) -> CaseResult:
    res = CaseResult()
    prog = c["prog"]
    m = dsl.build_module(prog, c["seed"])
    src = m._verif_source
    inputs = dsl.make_inputs(prog, c["seed"])
    order = dsl.forward_args(prog)
    outs0, pg0, ig0 = run_module(m, inputs, True, True)
    for p in m.parameters():
        p.grad = None
    ins = [inputs[k].clone().requires_grad_() if inputs[k].is_floating_point() else inputs[k] for k in order]
    try:
        code = analyse_module(m, tuple(ins), None, syntax_highlight=False)
    except Exception as e:  # noqa: BLE001
        res.fail(exc_bucket("C18.analyse.raises", e)[:300], f"{type(e).__name__}: {str(e)[:300]}\n{src}")
        return res
    fan = dsl.grad_fanout(prog)

    def ulp_only(a, b):
        return a is not None and b is not None and a.shape == b.shape and \
            bool(((a - b).abs() <= 4e-6 * max(1e-30, float(a.abs().max()))).all())
    for n, p in m.named_parameters():
        gp = None if p.grad is None else p.grad
        if not bitequal(pg0[n], gp):
            if ulp_only(pg0[n], gp):
                res.fail("C18.observational.last-ulp", f"analyse_module: gradient of parameter {n} differs in the last ulps ({fan} gradient contributions to one tensor)\n{src}")
            else:
                res.fail("C18.analyse.param-grad", f"parameter {n} gradient after analyse_module differs from a plain forward/backward\n{src}")
            break
    for k, t in zip(order, ins):
        if t.is_floating_point() and not bitequal(ig0[k], t.grad):
            if ulp_only(ig0[k], t.grad):
                res.fail("C18.observational.last-ulp", f"analyse_module: gradient of input {k} differs in the last ulps ({fan} gradient contributions to one tensor)\n{src}")
            else:
                res.fail("C18.analyse.input-grad", f"input {k} gradient after analyse_module differs from a plain forward/backward\n{src}")
            break
    # annotations vs independently captured standard deviations (same fx graph, harness interpreter)
    tracer = _DeepTracer()
    g = tracer.trace(m)
    gm = fx.GraphModule(tracer.root, g)
    store = {}
    ins2 = [inputs[k].clone().requires_grad_() if inputs[k].is_floating_point() else inputs[k] for k in order]
    out = tracking.HookInterp(gm, store).run(*ins2)
    out.backward()
    n_checked = 0
    for line in code.splitlines():
        mo = LINE.match(line)
        if not mo:
            continue
        name, fw, bw = mo.group(1), mo.group(2).strip(), mo.group(3).strip()
        rec = store.get(name)
        if rec is None:
            res.fail("C18.analyse.annotation-on-non-float", f"line {line.strip()!r} annotates a value that is not a float tensor")
            continue
        for label, txt, t in (("forward", fw, rec["fwd"]), ("backward", bw, rec["bwd"])):
            if t is None:
                if txt != "n/a":
                    res.fail(f"C18.analyse.{label}-annotation", f"{name}: annotated {txt} but no gradient reached this tensor")
                continue
            want = float(t.double().std()) if t.numel() > 1 else float("nan")
            if txt == "n/a":
                res.fail(f"C18.analyse.{label}-annotation", f"{name}: annotated n/a but the captured std is {want:.3}")
                continue
            got = float(txt)
            if math.isnan(want) and math.isnan(got):
                continue
            # (abs 1e-6: a gradient that is pure float32 cancellation noise - e.g. 2e-8 for O(1) tensors - differs between any two runs)
            if not math.isclose(got, want, rel_tol=6e-3, abs_tol=1e-6):
                res.fail(f"C18.analyse.{label}-annotation", f"{name}: annotated {txt}, captured standard deviation {want:.4g}\n{src}")
            n_checked += 1
    res.nontrivial = n_checked > 0
    res.labels.append("analyse_module")
    return res


CHECK = Check(
    id="C18",
    parts=[Part("track", run, strategy=cases, budget={"quick": 320, "thorough": 16000}),
           Part("analyse", run_analyse, strategy=analyse_cases, budget={"quick": 120, "thorough": 6000})],
    rule=("track: Hypothesis-generated modules (as C16 plus fan-out, integer/bool intermediates, cat/stack/rotate-half list consumers, "
          "keyword tensor arguments, index tensors, views/negations/*1.0, detached and integer outputs, 1-4 outputs, inputs with zeros), "
          "forward-only and forward+backward, optionally preceded by an earlier call of the same tracked module on other inputs (metrics must describe the last call). Oracle (a) the untracked module: outputs, parameter and input gradients bit-identical; "
          "(b) an independent fx.Interpreter with Tensor.register_hook (run through the public apply_transform on the same module) captures "
          "every node's tensor and total gradient: node.meta['metrics'] must equal mean|x|, |mean x|, std, max|x|, min|x|, numel recomputed "
          "with numpy in float64 (rel 1e-4, abs 1e-7), backward metrics present iff a gradient reached the tensor, non-float nodes "
          "uninstrumented. analyse: analyse_module leaves gradients bit-equal to a plain run and its (-> a, <- b) annotations equal the "
          "captured standard deviations to 3 significant digits. Non-trivial = backward pass and fan-out or a non-float intermediate."),
    assumptions=["TorchDynamo captures the same graph for the same module twice (node names matched by name and position)",
                 "library metrics are computed in float32: rel 1e-4 / abs 1e-7", "view-then-in-place aliasing is not generated"],
    shards={"quick": 8, "thorough": 14},
    time_budget={"quick": 300.0, "thorough": 3000.0},
)

if __name__ == "__main__":
    main(CHECK)
