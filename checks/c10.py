"""C10 - optimizer learning rates follow the u-muP rule for every type, shape and depth."""
from __future__ import annotations

import math

from vlib import env  # noqa: F401
import torch
from hypothesis import strategies as st
from torch import nn

from vlib.runner import CaseResult, Check, Part, exc_bucket, main

import unit_scaling as uu
from unit_scaling import optim as uo

DIMS = [1, 2, 3, 16, 17, 256, 4096]
TAGS = ["weight", "bias", "norm", "output"]


def oracle_factor(tag, shape, depth, family):
    """u-muP factor written from the statement. family: 'adam' | 'sgd-output'"""
    if len(shape) == 1:
        fan_in = shape[0]
    elif len(shape) == 2:
        fan_in = shape[1]
    elif len(shape) == 3:
        fan_in = shape[1] * shape[2]
    else:
        fan_in = None
    if family == "adam":
        f = fan_in ** -0.5 if tag == "weight" else 1.0
    else:
        f = fan_in ** 0.5 if tag == "weight" else (float(shape[0]) if tag in ("bias", "norm") else 1.0)
    if depth is not None:
        f *= depth ** -0.5
    return f


@st.composite
def shapes(draw, nd=None):
    nd = nd or draw(st.integers(1, 3))
    sh = []
    for _ in range(nd):
        sh.append(draw(st.sampled_from(DIMS) | st.integers(1, 4096)))
    while math.prod(sh) > 2**20:
        i = sh.index(max(sh))
        sh[i] = max(1, sh[i] // 16)
    return sh


@st.composite
def cases(draw, tier):
    n = draw(st.integers(1, 6))
    params = []
    for _ in range(n):
        params.append(dict(shape=draw(shapes()), tag=draw(st.sampled_from(TAGS)), frozen=draw(st.integers(0, 5)) == 0,
                           depth=draw(st.one_of(st.none(), st.none(), st.integers(1, 1024), st.sampled_from([1, 2, 3, 4, 1024])))))
    lr = draw(st.floats(math.log(1e-8), math.log(1e2)).map(lambda v: float(f"{math.exp(v):.6g}")) | st.sampled_from([1e-8, 1e2, 1.0, 1e-3]))
    layout = draw(st.sampled_from(["list", "generator", "groups", "groups-own-lr", "groups-mixed"]))
    opt = draw(st.sampled_from(["sp-adam", "sp-sgd-none", "sp-sgd-output", "SGD-none", "SGD-output", "Adam", "AdamW"]))
    error = draw(st.sampled_from([None] * 6 + ["untagged", "untagged-allowed", "weight-4d", "no-lr"]))
    c = dict(params=params, lr=lr, lr_kind=draw(st.sampled_from(["float", "float", "tensor32", "tensor64"])), layout=layout, opt=opt,
             error=error, group_lrs=[draw(st.floats(1e-6, 10.0).map(lambda v: float(f"{v:.6g}"))) for _ in range(n)],
             split=draw(st.integers(1, n)), lr_positional=draw(st.integers(0, 3)) == 0)
    if error in ("untagged", "untagged-allowed"):
        c["bad_index"] = draw(st.integers(0, n - 1))
    if error == "weight-4d":
        c["bad_index"] = draw(st.integers(0, n - 1))
        c["shape4"] = draw(st.lists(st.integers(1, 4), min_size=4, max_size=5))
    return c


def make_params(c):
    ps = []
    for i, p in enumerate(c["params"]):
        shape = p["shape"]
        if c["error"] == "weight-4d" and i == c["bad_index"]:
            ps.append(uu.Parameter(torch.empty(c["shape4"]), "weight", p["depth"]))
        elif c["error"] in ("untagged", "untagged-allowed") and i == c["bad_index"]:
            ps.append(nn.Parameter(torch.empty(shape)))
        else:
            ps.append(uu.Parameter(torch.empty(shape), p["tag"], p["depth"]))
        if p.get("frozen"):
            ps[-1].requires_grad_(False)   # a frozen parameter still gets the u-muP learning rate of its tag
    return ps


def mk_lr(c, v):
    if c["lr_kind"] == "float":
        return v
    return torch.tensor(v, dtype=torch.float32 if c["lr_kind"] == "tensor32" else torch.float64)


def run(c) -> CaseResult:
    res = CaseResult()
    ps = make_params(c)
    n = len(ps)
    layout = c["layout"]
    global_lr = mk_lr(c, c["lr"])
    src_lr = [c["lr"]] * n
    if layout == "list":
        arg = list(ps)
    elif layout == "generator":
        arg = (p for p in ps)
    else:
        k = c["split"]
        chunks = [ps[:k], ps[k:]] if k < n else [ps]
        arg = []
        pos = 0
        for gi, ch in enumerate(chunks):
            g = dict(params=list(ch))
            own = layout == "groups-own-lr" or (layout == "groups-mixed" and gi == 0)
            if own:
                g["lr"] = mk_lr(c, c["group_lrs"][gi])
                for j in range(pos, pos + len(ch)):
                    src_lr[j] = c["group_lrs"][gi]
            pos += len(ch)
            arg.append(g)
    opt = c["opt"]
    if c["error"] == "no-lr":
        every_group_has_lr = layout == "groups-own-lr" or (layout == "groups-mixed" and c["split"] >= n)
        if not opt.startswith("sp-") or every_group_has_lr:
            # the optimizer classes default to lr=1e-3 and groups may carry their own lr: not an error case
            c = dict(c, error=None)
        else:
            global_lr = None
    family = "sgd-output" if opt in ("sp-sgd-output", "SGD-output") else "adam"
    allow = c["error"] == "untagged-allowed"
    kw = dict(allow_non_unit_scaling_params=True) if allow else {}

    def call():
        if opt.startswith("sp-"):
            fn = {"sp-adam": uo.lr_scale_func_adam, "sp-sgd-none": uo.lr_scale_func_sgd(None),
                  "sp-sgd-output": uo.lr_scale_func_sgd("to_output_scale")}[opt]
            if c.get("lr_positional") and global_lr is not None:
                return list(uo.scaled_parameters(arg, fn, global_lr, **kw)), None
            return list(uo.scaled_parameters(arg, fn, lr=global_lr, **kw)), None
        # the learning rate by keyword or as the second positional argument (the signature of torch's own optimizers)
        lrpos = [global_lr] if (c.get("lr_positional") and global_lr is not None) else []
        lrkw = {} if (global_lr is None or lrpos) else dict(lr=global_lr)
        if opt.startswith("SGD"):
            o = uo.SGD(arg, *lrpos, readout_constraint=None if opt == "SGD-none" else "to_output_scale", **lrkw, **kw)
        elif opt == "Adam":
            o = uo.Adam(arg, *lrpos, **lrkw, **kw)
        else:
            o = uo.AdamW(arg, *lrpos, **lrkw, **kw)
        return o.param_groups, o
    res.labels += [f"opt={opt}", f"layout={layout}", f"lr={c['lr_kind']}", f"error={c['error']}"] + (["lr-positional"] if c.get("lr_positional") else [])
    expect_error = c["error"] in ("untagged", "weight-4d", "no-lr")
    try:
        groups, optimizer = call()
        if layout != "generator" and not c["error"]:
            # same parameters, second call: nothing may be carried over (tags, cached factors, mutated groups)
            groups_b, _ = call()
            if [float(g["lr"]) for g in groups_b] != [float(g["lr"]) for g in groups]:
                res.fail(f"C10.second-call-differs:{opt}", f"lrs {[float(g['lr']) for g in groups]} then {[float(g['lr']) for g in groups_b]} for the same parameters")
    except ValueError as e:
        if expect_error:
            res.nontrivial = True
            return res
        res.fail(f"C10.unexpected-ValueError:{opt}", f"{e}")
        return res
    except Exception as e:  # noqa: BLE001
        if expect_error:
            res.fail(f"C10.wrong-error-type:{c['error']}:{type(e).__name__}", f"{type(e).__name__}: {e} (ValueError expected)")
        else:
            res.fail(exc_bucket(f"C10.raises:{opt}", e), f"{type(e).__name__}: {e}")
        return res
    if expect_error:
        res.fail(f"C10.error-not-raised:{c['error']}:{opt}", f"{c['error']} accepted silently")
        return res
    if len(groups) != n:
        res.fail(f"C10.group-count:{opt}", f"{len(groups)} groups for {n} parameters")
        return res
    interesting = False
    for i, (g, p, spec) in enumerate(zip(groups, ps, c["params"])):
        if len(g["params"]) != 1 or g["params"][0] is not p:
            res.fail(f"C10.group-params:{opt}", f"group {i} does not hold exactly input parameter {i}")
            continue
        untagged = c["error"] == "untagged-allowed" and i == c["bad_index"]
        tag, depth, shape = spec["tag"], spec["depth"], list(p.shape)
        f = 1.0 if untagged else oracle_factor(tag, shape, depth, family)
        want = src_lr[i] * f
        got = g["lr"]
        if c["lr_kind"] != "float":
            if not isinstance(got, torch.Tensor):
                res.fail(f"C10.lr-type:{opt}", f"tensor lr became {type(got).__name__}")
                continue
        gotf = float(got)
        tol = 1e-12 if c["lr_kind"] in ("float", "tensor64") else 1e-6
        if not abs(gotf - want) <= tol * abs(want):
            key = "untagged" if untagged else f"{tag}:{len(shape)}d:{'depth' if depth else 'nodepth'}"
            res.fail(f"C10.lr:{family}:{key}", f"lr {gotf!r} expected {want!r} = {src_lr[i]!r} x {f!r} (tag={tag}, shape={shape}, depth={depth}, opt={opt})")
        if not untagged and (len(shape) != 2 or shape[0] != shape[1] or depth not in (None, 3) or c["lr_kind"] != "float"):
            interesting = True
    res.nontrivial = interesting
    for spec in c["params"]:
        res.labels.append(f"tag={spec['tag']}:{len(spec['shape'])}d")
    return res


CHECK = Check(
    id="C10",
    parts=[Part("lr", run, strategy=cases, budget={"quick": 6000, "thorough": 400000})],
    rule=("Hypothesis: 1-6 parameters (1-3 dims from {1,2,3,16,17,256,4096} or any 1..4096, <= 2^20 elements, torch.empty storage), "
          "tag in the four types, depth None or 1..1024, lr log-uniform in [1e-8,1e2] as float / float32 / float64 0-dim tensor, "
          "presented as list, generator or explicit groups with/without own lr; scaled_parameters with the three lr-scale functions and "
          "the SGD/Adam/AdamW classes (both readout constraints); 40% of cases carry one error condition (untagged, untagged-but-allowed, "
          "4-D weight, missing lr). Oracle: u-muP factor table written from the statement. Non-trivial = a non-square, 1-D or 3-D "
          "parameter, a depth not in {None,3} or a tensor lr; error cases count when rejected with ValueError."),
    assumptions=["oracle factors: adam/sgd-unconstrained weight fan_in^-1/2 else 1; sgd-to_output_scale weight fan_in^1/2, bias/norm length, "
                 "output 1; x depth^-1/2", "float lr rel 1e-12, float32 tensor lr rel 1e-6",
                 "the optimizer classes default to lr=1e-3, so 'missing lr' is an error only for scaled_parameters"],
    shards={"quick": 8, "thorough": 14},
)

if __name__ == "__main__":
    main(CHECK)
