"""C11 - parameter groups are preserved; weight decay is learning-rate independent."""
from __future__ import annotations

import copy
import math

from vlib import env  # noqa: F401
import torch
from hypothesis import strategies as st
from torch import nn

from vlib.runner import CaseResult, Check, Part, exc_bucket, main

import unit_scaling as uu
from unit_scaling import optim as uo

TAGS = ["weight", "bias", "norm", "output"]
SHAPES = [[3], [1], [2, 3], [4, 4], [2, 3, 2], [5, 1]]

# ("any positive lr": the range reaches down to 1e-10 - scaled learning rates below float32's eps must behave like any other)
lrs = st.floats(math.log(1e-4), math.log(10.0)).map(lambda v: float(f"{math.exp(v):.6g}")) | st.sampled_from([1.0, 0.5, 1e-3, 1e-8, 3e-10]) | \
    st.floats(math.log(1e-10), math.log(1e-4)).map(lambda v: float(f"{math.exp(v):.6g}"))
wds = st.floats(0.0, 0.5).map(lambda v: round(v, 6)) | st.sampled_from([0.0, 0.5, 0.1, 0.01])


@st.composite
def cases(draw, tier):
    allow = draw(st.booleans())
    layout = draw(st.sampled_from(["groups", "groups", "groups", "list", "generator"]))
    ng = draw(st.integers(1, 6)) if layout == "groups" else 1
    family = draw(st.sampled_from(["sgd", "adamw"]))
    groups = []
    for _ in range(ng):
        ps = [dict(shape=draw(st.sampled_from(SHAPES)), tag=(draw(st.sampled_from(TAGS + ([None] if allow else [])))),
                   depth=draw(st.sampled_from([None, None, 1, 7]))) for _ in range(draw(st.integers(1, 5)))]
        g = dict(params=ps)
        if layout == "groups":
            g["lr"] = draw(st.one_of(st.none(), lrs))
            g["lr_shared"] = draw(st.booleans())  # use the case-wide shared tensor object instead of an own value
            g["weight_decay"] = draw(st.one_of(st.none(), wds))
            extra = {}
            if family == "adamw":
                if draw(st.booleans()):
                    extra["betas"] = draw(st.sampled_from([[0.9, 0.999], [0.5, 0.9], [0.0, 0.5]]))
                if draw(st.booleans()):
                    extra["eps"] = draw(st.sampled_from([1e-8, 1e-6, 1e-3]))
            else:
                if draw(st.booleans()):
                    extra["momentum"] = draw(st.sampled_from([0.0, 0.9, 0.5]))
            if draw(st.integers(0, 3)) == 0:
                extra["foo"] = draw(st.sampled_from(["bar", 7, [1, 2]]))
            g["extra"] = extra
            g["params_as"] = draw(st.sampled_from(["list", "list", "list", "tuple", "generator"]))
        groups.append(g)
    return dict(groups=groups, layout=layout, family=family, allow=allow, lr=draw(lrs), weight_decay=draw(wds),
                lr_kind=draw(st.sampled_from(["float", "float", "tensor32", "tensor64"])), independent=draw(st.sampled_from([True, True, True, False])),
                steps=draw(st.integers(1, 3)), seed=draw(st.integers(0, 10**6)), via=draw(st.sampled_from(["scaled_parameters", "class"])),
                positional=draw(st.integers(0, 3)) == 0)


def mk_lr(kind, v):
    if kind == "float":
        return v
    return torch.tensor(v, dtype=torch.float32 if kind == "tensor32" else torch.float64)


def snapshot(v):
    import types
    if isinstance(v, types.GeneratorType):
        return ("val", "<generator>")   # consumed by design
    if isinstance(v, torch.Tensor):
        return ("tensor", id(v), v.detach().clone(), v._version)
    if isinstance(v, (list, tuple)):
        return ("seq", type(v), [snapshot(x) for x in v])
    return ("val", copy.deepcopy(v) if not isinstance(v, nn.Parameter) else id(v))


def same(a, b):
    if a[0] != b[0]:
        return False
    if a[0] == "tensor":
        return a[1] == b[1] and torch.equal(a[2], b[2]) and a[3] == b[3]
    if a[0] == "seq":
        return a[1] == b[1] and len(a[2]) == len(b[2]) and all(same(x, y) for x, y in zip(a[2], b[2]))
    return a[1] == b[1]


def run(c) -> CaseResult:
    res = CaseResult()
    g0 = torch.Generator().manual_seed(c["seed"])
    kind = c["lr_kind"]
    shared = mk_lr(kind, c["lr"])  # the global lr; may also be the very same object inside several groups
    flat = []       # (param, source lr value, requested wd, source-group index)
    arg_groups = []
    for gi, g in enumerate(c["groups"]):
        ps = []
        for spec in g["params"]:
            data = torch.randn(spec["shape"], generator=g0, dtype=torch.float64) + 0.5
            p = nn.Parameter(data) if spec["tag"] is None else uu.Parameter(data, spec["tag"], spec["depth"])
            ps.append(p)
        if c["layout"] == "groups":
            pa = g.get("params_as", "list")
            d = dict(params=ps if pa == "list" else (tuple(ps) if pa == "tuple" else (q for q in ps)))
            lrv = c["lr"]
            if g["lr"] is not None:
                if g["lr_shared"]:
                    d["lr"] = shared
                else:
                    d["lr"] = mk_lr(kind, g["lr"])
                    lrv = g["lr"]
            wd = c["weight_decay"]
            if g["weight_decay"] is not None:
                d["weight_decay"] = g["weight_decay"]
                wd = g["weight_decay"]
            for k, v in g["extra"].items():
                d[k] = tuple(v) if k == "betas" else v
            arg_groups.append(d)
            flat += [(p, lrv, wd, gi) for p in ps]
        else:
            arg_groups += ps
            flat += [(p, c["lr"], c["weight_decay"], None) for p in ps]
    if c["layout"] == "generator":
        arg = (p for p in arg_groups)
    else:
        arg = arg_groups
    before = [snapshot(list(d.items()) if isinstance(d, dict) else d) for d in arg_groups]
    before_keys = [list(d.keys()) if isinstance(d, dict) else None for d in arg_groups]
    shared_snap = snapshot(shared)
    fam = c["family"]
    res.labels += [f"layout={c['layout']}", f"lr={kind}", f"family={fam}", f"independent={c['independent']}", f"via={c['via']}"]
    if c.get("positional"):
        res.labels.append("lr-positional")
    optimizer = None
    try:
        if c["via"] == "scaled_parameters":
            fn = uo.lr_scale_func_adam if fam == "adamw" else uo.lr_scale_func_sgd(None)
            if c.get("positional"):  # lr, weight_decay, independent_weight_decay in signature order
                out = uo.scaled_parameters(arg, fn, shared, c["weight_decay"], c["independent"], allow_non_unit_scaling_params=c["allow"])
            else:
                out = uo.scaled_parameters(arg, fn, lr=shared, weight_decay=c["weight_decay"], independent_weight_decay=c["independent"],
                                           allow_non_unit_scaling_params=c["allow"])
            out = list(out)
        else:
            cls = uo.AdamW if fam == "adamw" else uo.SGD
            if c.get("positional"):  # the learning rate as the second positional argument, as for torch's own optimizers
                optimizer = cls(arg, shared, weight_decay=c["weight_decay"], independent_weight_decay=c["independent"],
                                allow_non_unit_scaling_params=c["allow"])
            else:
                optimizer = cls(arg, lr=shared, weight_decay=c["weight_decay"], independent_weight_decay=c["independent"],
                                allow_non_unit_scaling_params=c["allow"])
            out = optimizer.param_groups
    except Exception as e:  # noqa: BLE001
        res.fail(exc_bucket(f"C11.raises:{c['via']}", e), f"{type(e).__name__}: {e}")
        return res
    # ---- caller's data untouched
    after = [snapshot(list(d.items()) if isinstance(d, dict) else d) for d in arg_groups]
    for i, (a, b) in enumerate(zip(before, after)):
        if not same(a, b) or (before_keys[i] is not None and before_keys[i] != list(arg_groups[i].keys())):
            res.fail("C11.caller-groups-modified", f"input group {i} changed (keys/values/lr tensor)")
            break
    if not same(shared_snap, snapshot(shared)):
        res.fail("C11.caller-lr-tensor-modified", "the caller's lr tensor was modified in place")
    # ---- structure
    if len(out) != len(flat):
        res.fail("C11.group-count", f"{len(out)} groups for {len(flat)} parameters")
        return res
    seen_lr = {}
    caller_lr_ids = {id(shared)} | {id(d["lr"]) for d in arg_groups if isinstance(d, dict) and isinstance(d.get("lr"), torch.Tensor)}
    untagged_any = False
    for i, (g, (p, lrv, wd, gi)) in enumerate(zip(out, flat)):
        if not (isinstance(g, dict) and isinstance(g.get("params"), list) and len(g["params"]) == 1 and g["params"][0] is p):
            res.fail("C11.group-params", f"result group {i} does not hold exactly input parameter {i} (order / identity)")
            continue
        src = arg_groups[gi] if gi is not None else {}
        for k, v in src.items():
            if k in ("params", "lr", "weight_decay"):
                continue
            if k not in g or g[k] != v:
                res.fail(f"C11.extra-key-lost:{k}", f"option {k}={v!r} of the source group is {g.get(k, '<missing>')!r} in result group {i}")
        if c["via"] == "scaled_parameters":
            extra_keys = set(g) - set(src) - {"params", "lr", "weight_decay"}
            if extra_keys:
                res.fail("C11.extra-key-invented", f"result group {i} has new keys {sorted(extra_keys)}")
        lr_obj = g.get("lr")
        if isinstance(lr_obj, torch.Tensor):
            if id(lr_obj) in caller_lr_ids:
                res.fail("C11.lr-aliases-caller:" + ("untagged" if not uu.parameter.has_parameter_data(p) else "tagged"),
                         f"result group {i} holds the caller's lr tensor object")
            if id(lr_obj) in seen_lr:
                res.fail("C11.lr-aliased-between-groups:" + ("untagged" if not uu.parameter.has_parameter_data(p) else "tagged"),
                         f"result groups {seen_lr[id(lr_obj)]} and {i} share one lr tensor object")
            seen_lr.setdefault(id(lr_obj), i)
        elif kind != "float":
            res.fail("C11.lr-type", f"tensor lr became {type(lr_obj).__name__} in group {i}")
        tagged = uu.parameter.has_parameter_data(p)
        untagged_any |= not tagged
        lr_eff = float(lr_obj)
        tol = 1e-12 if kind != "tensor32" else 1e-6
        if c["independent"]:
            prod = lr_eff * float(g["weight_decay"])
            if not abs(prod - wd) <= tol * max(wd, 1e-300) + (0 if wd else 1e-300):
                res.fail("C11.decay-product", f"lr x weight_decay = {prod!r}, requested decay {wd!r} (group {i})")
        elif g["weight_decay"] != wd:
            res.fail("C11.decay-passthrough", f"weight_decay {g['weight_decay']!r} != {wd!r} with independent_weight_decay=False")
    if res.fails:
        return res
    # ---- 1-3 zero-gradient steps multiply every parameter by (1 - wd)
    if c["independent"]:
        try:
            if optimizer is None:
                groups2 = [{k: v for k, v in g.items() if k != "foo"} for g in out]
                optimizer = torch.optim.AdamW(groups2) if fam == "adamw" else torch.optim.SGD(groups2)
            steps = c["steps"]
            if fam == "sgd" and any(g.get("momentum", 0) for g in optimizer.param_groups):
                steps = 1
            init = [p.detach().clone() for p, *_ in flat]
            for _ in range(steps):
                for p, *_ in flat:
                    p.grad = torch.zeros_like(p)
                optimizer.step()
            tol = 1e-12 if kind != "tensor32" else 1e-6
            for i, ((p, lrv, wd, gi), p0) in enumerate(zip(flat, init)):
                want = p0 * (1 - wd) ** steps
                if not bool(((p.detach() - want).abs() <= tol * want.abs() + 1e-300).all()):
                    j = int((p.detach() - want).abs().argmax())
                    res.fail(f"C11.step-decay:{fam}", f"after {steps} zero-grad steps param {i} = {p.detach().flatten()[j].item()!r}, expected initial x (1-{wd})^{steps} = {want.flatten()[j].item()!r}")
                    break
            res.labels.append(f"steps={steps}")
        except Exception as e:  # noqa: BLE001
            res.fail(exc_bucket(f"C11.step.raises:{fam}", e), f"{type(e).__name__}: {e}")
    res.nontrivial = (len(c["groups"]) >= 2) or kind != "float" or untagged_any
    if untagged_any:
        res.labels.append("untagged-param")
    if kind != "float" and any(g.get("lr_shared") and g.get("lr") is not None for g in c["groups"]):
        res.labels.append("shared-lr-tensor")
    return res


CHECK = Check(
    id="C11",
    parts=[Part("groups", run, strategy=cases, budget={"quick": 5000, "thorough": 300000})],
    rule=("Hypothesis: 1-6 groups x 1-5 float64 parameters (tagged, or untagged when allowed), optional per-group lr (own value or the "
          "*same* tensor object as the global lr), weight_decay in [0,0.5], extra keys (betas, eps, momentum, foo), or bare list / generator; "
          "float / float32 / float64 tensor lr; independent weight decay on/off; through scaled_parameters and through the optimizer "
          "classes; then 1-3 zero-gradient SGD / AdamW steps. Oracle: structural model (one group per parameter, order, identity, "
          "carried keys, caller's groups and tensors bit-identical with unchanged _version, no shared lr tensor objects) and "
          "parameter == initial x (1-wd)^k. Non-trivial = >= 2 groups, a tensor lr or an untagged parameter."),
    assumptions=["torch.optim.SGD / AdamW step semantics (decoupled decay p *= 1 - lr*wd; zero gradient => no other update) are trusted",
                 "SGD multi-step only with momentum 0 (momentum buffer accumulates decay otherwise); Adam (non-W) excluded as in the statement",
                 "rel 1e-12 (float / float64 tensor lr), 1e-6 (float32 tensor lr)"],
    shards={"quick": 8, "thorough": 14},
)

if __name__ == "__main__":
    main(CHECK)
