"""C04 - nonlinear ops stay near unit scale across their hyper-parameter range."""
from __future__ import annotations

import math
from functools import lru_cache

from vlib import env  # noqa: F401
import torch
from hypothesis import strategies as st

import unit_scaling.functional as U
from vlib.runner import CaseResult, Check, HarnessError, Part, exc_bucket, main

GRID = [round(math.exp(math.log(1 / 16) + i * (math.log(256) / 64)), 9) for i in range(65)]
logmult = lambda lo, hi: st.floats(math.log(lo), math.log(hi)).map(lambda v: float(f"{math.exp(v):.6g}"))  # noqa: E731


# ------------------------------------------------------------------ elementwise: quadrature


@lru_cache(maxsize=4)
def simpson(n_pow):
    n = 2**n_pow
    x = torch.linspace(-12.0, 12.0, n + 1, dtype=torch.float64)
    h = 24.0 / n
    w = torch.ones(n + 1, dtype=torch.float64)
    w[1:-1:2] = 4.0
    w[2:-1:2] = 2.0
    w = w * (h / 3.0) * torch.exp(-0.5 * x * x) / math.sqrt(2 * math.pi)
    return x, w


def elementwise_stats(op, mult, n_pow, frozen=None):
    x, w = simpson(n_pow)
    xi = x.clone().requires_grad_()
    if op == "silu_glu":
        # `frozen`: one of the two operands does not require a gradient (the other one's gradient scale must not depend on that)
        lin = torch.ones_like(xi, requires_grad=frozen != "input")
        if frozen == "gate":
            xi = x.clone()
        y = U.silu_glu(lin, xi, mult=mult)  # with the linear input = 1: y = s * g*sigmoid(m g)
        out_std = (w * y.detach() ** 2).sum().sqrt().item()  # linear input is independent, zero-mean, unit variance
        out = dict(out=out_std)
        if frozen != "input":
            out["grad_input"] = (w * torch.autograd.grad(y, lin, torch.ones_like(y), retain_graph=True)[0] ** 2).sum().sqrt().item()
        if frozen != "gate":
            out["grad_gate"] = (w * torch.autograd.grad(y, xi, torch.ones_like(y))[0] ** 2).sum().sqrt().item()
        return out
    if op == "gelu":
        y = U.gelu(xi, mult=mult, constraint=None)
    elif op == "gelu_tanh":
        y = U.gelu(xi, mult=mult, constraint=None, approximate="tanh")
    else:
        y = U.silu(xi, mult=mult, constraint=None)
    yd = y.detach()
    mean = (w * yd).sum()
    var = (w * (yd - mean) ** 2).sum()
    (g,) = torch.autograd.grad(y, xi, torch.ones_like(y))
    return dict(out=var.sqrt().item(), grad_input=(w * g * g).sum().sqrt().item())


@st.composite
def ew_cases(draw, tier):
    return dict(op=draw(st.sampled_from(["gelu", "gelu_tanh", "silu", "silu_glu"])),
                mult=draw(st.one_of(st.sampled_from(GRID), st.sampled_from([1 / 16, 16.0, 1.0]), logmult(1 / 16, 16))),
                frozen=draw(st.sampled_from([None, None, "input", "gate"])))


def run_ew(c) -> CaseResult:
    res = CaseResult()
    op, m = c["op"], c["mult"]
    try:
        fz = c.get("frozen") if op == "silu_glu" else None
        a = elementwise_stats(op, m, 17, fz)
        b = elementwise_stats(op, m, 15, fz)
        if fz:
            res.labels.append(f"silu_glu:{fz}-without-grad")
    except Exception as e:  # noqa: BLE001
        res.fail(exc_bucket(f"C04.raises:{op}", e), f"{e}")
        return res
    for k in a:
        if not abs(a[k] - b[k]) <= 1e-9 * max(1.0, abs(a[k])):
            raise HarnessError(f"quadrature not converged for {op} mult={m}: {a[k]!r} vs {b[k]!r}")
        res.stat(f"{op}.{k}", a[k])
        if not abs(a[k] - 1) <= 0.07:
            res.fail(f"C04.band:{op}:{k}", f"{k} = {a[k]:.4f} outside [0.93, 1.07] at mult={m}")
    res.nontrivial = m not in (0.25, 1.0, 4.0)
    res.labels += [f"op={op}"] + (["mult>4"] if m > 4 else []) + (["mult<1/4"] if m < 0.25 else [])
    return res


# ------------------------------------------------------------------ Monte-Carlo parts


def rms(t):
    return t.detach().double().pow(2).mean().sqrt().item()


def band(res, tag, val, lo, hi, slack=0.005, info=""):
    res.stat(tag, val)
    if not (lo * (1 - slack) <= val <= hi * (1 + slack)):
        res.fail(f"C04.band:{tag}", f"{tag} RMS = {val:.4f} outside [{lo}, {hi}] {info}")


@st.composite
def mc_cases(draw, tier):
    op = draw(st.sampled_from(["softmax", "softmax", "attention", "attention", "cross_entropy", "cross_entropy", "layer_norm", "rms_norm"]))
    c = dict(op=op, seed=draw(st.integers(0, 10**6)))
    if op == "softmax":
        c.update(width=draw(st.sampled_from([16, 4096, 17, 1000]) | st.floats(math.log(16), math.log(4096)).map(lambda v: int(round(math.exp(v))))),
                 mult=draw(st.sampled_from([1 / 8, 4.0, 1.0]) | logmult(1 / 8, 4)),
                 layout=draw(st.sampled_from(["last", "last", "first", "middle"])))
    elif op == "attention":
        c.update(seq=draw(st.sampled_from([16, 1024, 48]) | st.floats(math.log(16), math.log(1024)).map(lambda v: int(round(math.exp(v))))),
                 d=draw(st.sampled_from([16, 64, 128]) | st.integers(16, 128)), mult=draw(st.sampled_from([0.25, 16.0, 1.0]) | logmult(0.25, 16)),
                 causal=draw(st.booleans()), p=draw(st.sampled_from([0.0, 0.0, 0.3, 0.1]) | st.floats(0, 0.3).map(lambda v: round(v, 3))),
                 # cross-attention / decoding against a cache: the query length differs from the key / value length (both in range)
                 seq_q=draw(st.sampled_from([None, None, 16, 1024, 64, 256])))
    elif op == "cross_entropy":
        c.update(V=draw(st.sampled_from([2, 3, 4, 8, 32768]) | st.floats(math.log(2), math.log(32768)).map(lambda v: int(round(math.exp(v))))),
                 mult=draw(st.sampled_from([1 / 16, 4.0, 1.0]) | logmult(1 / 16, 4)), uniform=draw(st.integers(0, 3)) == 0)
    else:
        c.update(width=draw(st.sampled_from([16, 4096, 17]) | st.floats(math.log(16), math.log(4096)).map(lambda v: int(round(math.exp(v))))),
                 eps=draw(st.sampled_from([1e-5, 0.0, 1e-8])), split=draw(st.sampled_from([1, 1, 2, 4, 16])), lead=draw(st.sampled_from([1, 2])))
    return c


def run_mc(c) -> CaseResult:
    res = CaseResult()
    op = c["op"]
    g = torch.Generator().manual_seed(c["seed"])
    torch.manual_seed(c["seed"])
    N = 2**20
    res.labels.append(f"op={op}")
    try:
        if op == "softmax":
            W, m = c["width"], c["mult"]
            rows = max(1, N // W)
            lay = c.get("layout", "last")
            if lay == "last":
                shape, dim = (rows, W), -1
            elif lay == "first":
                shape, dim = (W, rows), 0
            else:
                r1 = max(1, int(round(rows ** 0.5)))
                shape, dim = (r1, W, max(1, rows // r1)), -2
            x = torch.randn(shape, generator=g).requires_grad_()
            y = U.softmax(x, dim=dim, mult=m, constraint=None)
            y.backward(torch.randn(y.shape, generator=g))
            info = f"(width={W}, mult={m}, shape={shape}, dim={dim})"
            res.labels.append(f"softmax-dim={dim}")
            band(res, "softmax.out", rms(y), 0.55, 1.35, info=info)
            band(res, "softmax.grad_input", rms(x.grad), 0.55, 1.35, info=info)
            res.nontrivial = m not in (0.25, 1.0, 4.0) or W not in (256,)
        elif op == "attention":
            S, d, m, p = c["seq"], c["d"], c["mult"], c["p"]
            bh = max(1, N // (S * d))
            Sq = S if (c.get("seq_q") is None or c["causal"]) else c["seq_q"]
            bh = max(1, N // (max(S, Sq) * d))
            q = torch.randn(bh, Sq, d, generator=g).requires_grad_()
            k, v = (torch.randn(bh, S, d, generator=g).requires_grad_() for _ in range(2))
            y = U.scaled_dot_product_attention(q, k, v, is_causal=c["causal"], dropout_p=p, mult=m)
            y.backward(torch.randn(y.shape, generator=g))
            info = f"(query length={Sq}, key/value length={S}, head={d}, mult={m}, causal={c['causal']}, dropout={p})"
            if Sq != S:
                res.labels.append("cross-attention")
            band(res, "attention.out", rms(y), 0.7, 1.3, info=info)
            if Sq == S:
                band(res, "attention.grad_value", rms(v.grad), 0.7, 1.3, info=info)
            else:
                # (each value row collects gradient from Sq queries: its RMS carries a factor ~sqrt(Sq / S) that only equal lengths -
                # the statement's single "sequence" - cancel; the output depends on the key / value length alone and stays in the band)
                res.stat("attention.grad_value(cross)", rms(v.grad))
            res.stat("attention.grad_query", rms(q.grad))
            res.nontrivial = True
            res.labels += (["causal"] if c["causal"] else []) + (["dropout>0"] if p > 0 else []) + (["mult>4"] if m > 4 else [])
        elif op == "cross_entropy":
            V, m = c["V"], c["mult"]
            n = max(8, N // V)
            t = torch.randint(0, V, (n,), generator=g)
            if c["uniform"]:
                x = torch.zeros(n, V, dtype=torch.float64).requires_grad_()
                U.cross_entropy(x, t, mult=m).backward()
                val = rms(x.grad)
                res.stat("cross_entropy.grad_uniform", val)
                if not abs(val - 1) <= 1e-6:
                    res.fail("C04.exact:cross_entropy.uniform-logits", f"logit-gradient RMS = {val!r} != 1 for uniform logits (vocab={V}, mult={m})")
                res.labels.append("uniform-logits")
            else:
                x = torch.randn(n, V, generator=g).requires_grad_()
                U.cross_entropy(x, t, mult=m).backward()
                band(res, "cross_entropy.grad_input", rms(x.grad), 0.95, 1.45, info=f"(vocab={V}, mult={m})")
            res.nontrivial = True
            if V < 8:
                res.labels.append("vocab<8")
        else:
            W = c["width"]
            # the normalised width may be spread over several trailing dimensions (normalized_shape = (W/k, k)) and sit behind one
            # or two leading dimensions
            k_ = c.get("split", 1)
            ns = (W,) if (k_ == 1 or W % k_) else (W // k_, k_)
            rows = max(1, N // W)
            lead = (rows,) if c.get("lead", 1) == 1 else (max(1, rows // 4), 4)
            x = torch.randn(*lead, *ns, generator=g).requires_grad_()
            if op == "layer_norm":
                y = U.layer_norm(x, ns, torch.ones(ns), torch.zeros(ns), c["eps"])
            else:
                y = U.rms_norm(x, ns, torch.ones(ns), c["eps"])
            y.backward(torch.randn(y.shape, generator=g))
            info = f"(normalized_shape={ns}, input {tuple(x.shape)})"
            res.labels.append(f"normalized-dims={len(ns)}")
            band(res, f"{op}.out", rms(y), 0.9, 1.1, slack=0.005, info=info)
            band(res, f"{op}.grad_input", rms(x.grad), 0.9, 1.1, slack=0.005, info=info)
            res.nontrivial = True
    except Exception as e:  # noqa: BLE001
        res.fail(exc_bucket(f"C04.raises:{op}", e), f"{type(e).__name__}: {e}")
    return res


CHECK = Check(
    id="C04",
    parts=[Part("elementwise", run_ew, strategy=ew_cases, budget={"quick": 800, "thorough": 40000}),
           Part("montecarlo", run_mc, strategy=mc_cases, budget={"quick": 300, "thorough": 20000})],
    rule=("elementwise: op in {gelu, gelu-tanh, silu, silu_glu} x mult from a 65-point log grid on [1/16,16], the end points and log-uniform "
          "floats; output std and gradient RMS under N(0,1) by 2^17-point Simpson quadrature of the library's own forward value and autograd "
          "derivative (must agree with the 2^15-point rule to 1e-9); band |stat-1| <= 0.07. montecarlo: fixed-seed 2^20-element draws for "
          "softmax (width 16-4096, mult 1/8-4), attention (seq 16-1024, head 16-128, mult 1/4-16, causal, dropout 0-0.3), cross-entropy "
          "(vocab 2-32768, mult 1/16-4, exact clause for uniform logits) and layer/rms norm (width 16-4096) against the bands of the "
          "statement (+0.5% sampling slack). Non-trivial = any configuration other than the suite's literal points (mult in {1/4,1,4})."),
    assumptions=["composite Simpson on [-12,12] (tail mass < 1e-32) instead of Gauss-Hermite, which is off by 1.7e-2 at mult=16 (DESIGN.md C04)",
                 "Monte-Carlo sampling error < 0.5% added to the bands as slack", "the oracle is a band: drift inside the band is not a violation; observed min/max are reported"],
    shards={"quick": 8, "thorough": 14},
    time_budget={"quick": 240.0, "thorough": 3000.0},
)

if __name__ == "__main__":
    main(CHECK)
