"""C16 - unit_scale() equals the hand conversion prescribed by the User Guide."""
from __future__ import annotations

import collections
import copy

from vlib import env  # noqa: F401
import torch
import torch.nn.functional as F
from hypothesis import strategies as st
from torch import nn

import unit_scaling.functional as U
from unit_scaling.transforms import unit_scale
from unit_scaling.transforms.utils import apply_transform
from vlib import dsl
from vlib.runner import CaseResult, Check, Part, exc_bucket, main

FLOAT_INPUTS = ("x", "x2")


@st.composite
def cases(draw, tier):
    return dict(prog=draw(dsl.unit_programs()), seed=draw(st.integers(0, 10**6)), train=draw(st.booleans()),
                prior_replace=draw(st.integers(0, 7)) == 0, nnroot=draw(st.integers(0, 5)) == 0, input_grad=draw(st.integers(0, 3)) != 0)


def prep(inputs, rg=True):
    return {k: (v.clone().requires_grad_(rg) if k in FLOAT_INPUTS else v.clone()) for k, v in inputs.items()}


def grads(y, tensors):
    return torch.autograd.grad(y, tensors, allow_unused=True)


def close(a, b, rtol=2e-5, atol=2e-6):
    if a is None or b is None:
        return (a is None) == (b is None) or (a is None and not bool(b.any())) or (b is None and not bool(a.any()))
    return a.shape == b.shape and bool(torch.allclose(a, b, rtol=rtol, atol=atol * max(1.0, float(b.abs().max()))))


def feature(prog):
    """discriminating feature of a program for root-cause buckets"""
    plan = dsl.unit_plan(prog)
    prod = dsl.producer(prog)
    feats = []
    for out, (skip, branch, tau) in plan["residual"].items():
        s = prod[out]
        if s["spell"] != "plus":
            feats.append("residual-" + s["spell"])
        if skip in prod and prod[skip]["op"] == "add" and skip not in plan["residual"]:
            feats.append("skip-is-plain-sum")
    last_res = max([i for i, s in enumerate(prog["stmts"]) if s["out"] in plan["residual"]], default=-1)
    for i, s in enumerate(prog["stmts"]):
        if s["op"] == "add" and s["out"] not in plan["residual"]:
            feats.append("plain-add-after-last-residual" if i > last_res else "plain-add-before-residual")
            if s["b"] == "scalar":
                feats.append("scalar-add")
        if s["op"] == "linear" and s["spell"] == "nobias":
            feats.append("linear-nobias")
        if s["op"] == "ew" and s["fn"] == "softmax_mod":
            feats.append("nn.Softmax")
    if prog["ret"]["kind"] == "cross_entropy" and not prog["ret"].get("module_head"):
        feats.append("linear-nobias")
    return sorted(set(feats))


def expected_nodes(prog):
    """multiset of (unit function, constraint-is-None / tau) the rewritten graph must contain"""
    plan = dsl.unit_plan(prog)
    cons = plan["constrained"]
    exp = collections.Counter()
    for s in prog["stmts"]:
        o = s["out"]
        c = "constrained" if o in cons else "None"
        if s["op"] == "linear":
            exp[("linear", c)] += 1
        elif s["op"] in ("seq", "mlp2"):
            exp[("linear", c)] += 2
        elif s["op"] == "sdpa":
            exp[("scaled_dot_product_attention", "-")] += 1
        elif s["op"] == "matmul":
            exp[("matmul", c)] += 1
        elif s["op"] == "conv1d":
            exp[("conv1d", c)] += 1
        elif s["op"] == "embedding":
            exp[("embedding", "-")] += 1
        elif s["op"] == "ew" and s["fn"] in dsl.EW_MAPPED:
            name = {"gelu_tanh": "gelu", "gelu_mod": "gelu", "softmax_pos": "softmax", "softmax_mod": "softmax", "dropout0": "dropout",
                    "dropout_eval": "dropout", "dropout_mod": "dropout", "layer_norm_mod": "layer_norm", "layer_norm_plain_mod": "layer_norm"}.get(s["fn"], s["fn"])
            exp[(name, c if name in ("gelu", "silu", "softmax") else "-")] += 1
        elif s["op"] == "add":
            if o in plan["residual"]:
                exp[("residual_add", plan["residual"][o][2])] += 1
                exp[("residual_split", plan["residual"][o][2])] += 1
            else:
                exp[("add", "None")] += 1
    r = prog["ret"]
    if r["kind"] == "cross_entropy":
        exp[("linear", "None")] += 1
        exp[("cross_entropy", "-")] += 1
    if r["kind"] == "mse":
        exp[("mse_loss", "-")] += 1
    return exp


UNIT_FNS = {v: k for k, v in {**{n: getattr(U, n) for n in U.__all__}}.items()}


def actual_nodes(gm):
    got = collections.Counter()
    for n in gm.graph.nodes:
        if n.op != "call_function" or n.target not in UNIT_FNS:
            continue
        name = UNIT_FNS[n.target]
        if name in ("residual_add", "residual_split"):
            tau = n.args[-1] if len(n.args) >= (3 if name == "residual_add" else 2) else n.kwargs.get("tau")
            got[(name, tau)] += 1
        elif name in ("linear", "matmul", "conv1d", "gelu", "silu", "softmax", "add"):
            got[(name, "None" if ("constraint" in n.kwargs and n.kwargs["constraint"] is None) else "constrained")] += 1
        else:
            got[(name, "-")] += 1
    return got


def run(c) -> CaseResult:
    res = CaseResult()
    rg = bool(c.get("input_grad", True))   # do the float inputs require a gradient? (a first layer fed by data: only the parameters do)
    if not rg:
        res.labels.append("inputs-without-grad")
    prog = c["prog"]
    feats = feature(prog)
    ftag = "+".join(feats) or "plain"
    st_ = dsl.stats(prog)
    res.labels += [f"residuals={st_['n_residual']}"] + feats
    if c.get("prior_replace"):
        # an earlier, unrelated unit_scale(..., replace=...) call in the same process must not leak into this one
        res.labels.append("after-unrelated-replace-call")
        try:
            pm = unit_scale(ReplaceModel(3, "builtin-overridden"), replace={F.gelu: my_gelu})
            pm(torch.randn(2, 3))
        except Exception:  # noqa: BLE001  (its own correctness is the replace part's business)
            pass
    m = dsl.build_module(prog, c["seed"])
    nnroot = bool(c.get("nnroot"))
    if nnroot:  # the program behind a root whose class is defined in torch.nn
        m = dsl.nn_root(m)
        res.labels.append("root=nn.Sequential(program)")
    m.train(c["train"])
    if not rg and not any(True for _ in m.parameters()):
        rg = True   # nothing would require a gradient at all
    inputs = dsl.make_inputs(prog, c["seed"])

    def call(mod, d):
        return dsl.call(mod, prog, d, nnroot)
    sd0 = {k: v.detach().clone() for k, v in m.state_dict().items()}
    y0 = call(m, inputs)
    # ---- (1) unit_scale and the first forward/backward call do not raise
    try:
        um = unit_scale(m)
        P = dict(um.named_parameters())
        fl = prep(inputs, rg)
        y = call(um, fl)
        diff = [fl[k] for k in FLOAT_INPUTS if k in fl and fl[k].requires_grad] + list(P.values())
        g = grads(y, diff)
    except Exception as e:  # noqa: BLE001
        res.fail(exc_bucket("C16.raises", e).replace("outside-library", "via-dynamo")[:300], f"{type(e).__name__}: {str(e)[:300]}\n{m._verif_source}")
        return res
    # ---- (2) same function as the hand conversion (outputs and all gradients)
    fr = prep(inputs, rg)
    yr = dsl.evaluate(prog, dsl.named_tensors(um), fr, dsl.Unit())
    gr = grads(yr, [fr[k] for k in FLOAT_INPUTS if k in fr and fr[k].requires_grad] + list(P.values()))
    if not close(y.detach(), yr.detach()):
        res.fail("C16.value", f"[{ftag}] unit_scale(module) returned {y.item():.7g}, the User-Guide hand conversion gives {yr.item():.7g}\n{m._verif_source}")
    else:
        names = [k for k in FLOAT_INPUTS if k in fl and fl[k].requires_grad] + list(P.keys())
        for name, a, b in zip(names, g, gr):
            if not close(a, b):
                res.fail("C16.grad", f"[{ftag}] gradient wrt {name} differs from the hand conversion\n{m._verif_source}")
                break
    # ---- (2') inference: the same function without gradient tracking
    try:
        with torch.no_grad():
            y_ng = call(um, {k: v.clone() for k, v in inputs.items()})
            yr_ng = dsl.evaluate(prog, dsl.named_tensors(um), {k: v.clone() for k, v in inputs.items()}, dsl.Unit())
        if not close(y_ng, yr_ng):
            res.fail("C16.value.no_grad", f"[{ftag}] under torch.no_grad() unit_scale(module) returned {y_ng.item():.7g}, the hand conversion gives {yr_ng.item():.7g}\n{m._verif_source}")
    except Exception as e:  # noqa: BLE001
        res.fail(exc_bucket("C16.raises.no_grad", e).replace("outside-library", "via-dynamo")[:300], f"{type(e).__name__}: {str(e)[:300]}\n{m._verif_source}")
    # ---- (2'') a second call of the same transformed module with another batch size (TorchDynamo recompiles: the transform runs again)
    if not any(s_["op"] == "shape" and s_["kind"] in ("flat", "view") for s_ in prog["stmts"]):
        prog_b = dict(prog, B=prog["B"] + 1)
        inputs_b = dsl.make_inputs(prog_b, c["seed"] + 3)
        try:
            fb = prep(inputs_b)
            yb = call(um, fb)
            gb = grads(yb, [fb[k] for k in FLOAT_INPUTS if k in fb and fb[k].requires_grad] + list(P.values()))
            frb = prep(inputs_b)
            yrb = dsl.evaluate(prog_b, dsl.named_tensors(um), frb, dsl.Unit())
            grb = grads(yrb, [frb[k] for k in FLOAT_INPUTS if k in frb and frb[k].requires_grad] + list(P.values()))
            if not close(yb.detach(), yrb.detach()) or not all(close(a, b) for a, b in zip(gb, grb)):
                res.fail("C16.second-call.other-batch-size", f"[{ftag}] a second call with batch size {prog_b['B']} differs from the hand conversion (first call with {prog['B']} agreed)\n{m._verif_source}")
            res.labels.append("second-call-other-batch-size")
        except Exception as e:  # noqa: BLE001
            res.fail(exc_bucket("C16.raises.second-call", e).replace("outside-library", "via-dynamo")[:300], f"{type(e).__name__}: {str(e)[:300]}\n{m._verif_source}")
    # ---- (3) the original is untouched; (4) weights of Linear/Embedding modules re-initialised, biases zero
    for k, v in m.state_dict().items():
        if not torch.equal(v, sd0[k]):
            res.fail("C16.original-modified", f"parameter {k} of the original module changed")
            break
    y0b = call(m, inputs)
    if not torch.equal(y0, y0b):
        res.fail("C16.original-modified", "the original module computes a different value after unit_scale")
    for name, mod in um.named_modules():
        if isinstance(mod, (nn.Linear, nn.Embedding)):
            w = mod.weight.detach()
            if w.numel() > 1 and not abs(w.std().item() - 1) <= 1e-5:
                res.fail("C16.reinit.weight-std", f"{name}.weight std {w.std().item()!r} after unit_scale")
            b = getattr(mod, "bias", None)
            if isinstance(b, torch.Tensor) and bool((b != 0).any()):
                res.fail("C16.reinit.bias-nonzero", f"{name}.bias not zero after unit_scale")
    # ---- (5) rewritten graph: node classification
    try:
        captured = []

        def rec(gm, ex):
            captured.append(copy.deepcopy(gm))
            return gm
        probe = apply_transform(m, rec)
        call(probe, inputs)
        if len(captured) == 1:
            backend = um.backends[-1]
            gm2 = backend(captured[0], [])
            exp, got = expected_nodes(prog), actual_nodes(gm2)
            if exp != got:
                missing = dict(exp - got)
                extra = dict(got - exp)
                res.fail("C16.graph", f"[{ftag}] rewritten graph nodes differ from the recipe: missing {missing}, unexpected {extra}\n{m._verif_source}")
        else:
            res.labels.append(f"graphs-captured={len(captured)}")
    except Exception as e:  # noqa: BLE001
        res.fail(exc_bucket("C16.graph.raises", e)[:300], f"{type(e).__name__}: {str(e)[:200]}")
    res.nontrivial = st_["n_add"] >= 1
    res.sample = dict(source=m._verif_source, residual_adds=st_["n_residual"])
    return res


# ------------------------------------------------------------------ many instances of ONE model class in one process


@st.composite
def repeat_cases(draw, tier):
    return dict(prog=draw(dsl.unit_programs(max_ops=6)), seed=draw(st.integers(0, 10**6)), n=draw(st.sampled_from([10, 12])))


def run_repeat(c) -> CaseResult:
    res = CaseResult()
    prog = c["prog"]
    cls = dsl.build_class(prog)
    for k in range(c["n"]):
        m = dsl.build_module(prog, c["seed"] + k, cls=cls)
        inputs = dsl.make_inputs(prog, c["seed"] + k)
        try:
            um = unit_scale(m)
            fl = prep(inputs)
            y = um(**fl)
        except Exception as e:  # noqa: BLE001
            res.fail(exc_bucket("C16.repeat.raises", e)[:300], f"instance #{k + 1}: {type(e).__name__}: {str(e)[:200]}")
            return res
        yr = dsl.evaluate(prog, dsl.named_tensors(um), prep(inputs), dsl.Unit())
        if not close(y.detach(), yr.detach()):
            res.fail("C16.repeat.value", f"instance #{k + 1} of the same model class: unit_scale(module) returned {y.item():.7g}, hand conversion {yr.item():.7g} "
                     f"(earlier instances agreed)\n{cls._verif_source}")
            return res
    res.nontrivial = True
    res.labels.append("same-class-x%d" % c["n"])
    return res


# ------------------------------------------------------------------ user replacements take precedence


def my_gelu(input, approximate="none"):
    return F.gelu(input, approximate=approximate) * 2.0


def custom_act(x):
    return x * torch.sigmoid(x)


class ReplaceModel(nn.Module):
    def __init__(self, h, variant):
        super().__init__()
        self.lin = nn.Linear(h, h)
        self.variant = variant

    def forward(self, x):
        h = self.lin(x)
        if self.variant == "builtin-overridden":
            h = F.gelu(h, approximate="tanh")
        else:
            h = custom_act(h)
        return (x + h).sum() if self.variant.endswith("residual") or True else h.sum()


@st.composite
def replace_cases(draw, tier):
    return dict(variant=draw(st.sampled_from(["builtin-overridden", "custom-to-unit"])), h=draw(st.integers(2, 6)), seed=draw(st.integers(0, 10**5)))


def run_replace(c) -> CaseResult:
    res = CaseResult()
    torch.manual_seed(c["seed"])
    m = ReplaceModel(c["h"], c["variant"])
    x = torch.randn(3, c["h"])
    rep = {F.gelu: my_gelu} if c["variant"] == "builtin-overridden" else {custom_act: U.silu}
    try:
        um = unit_scale(m, replace=rep)
        xl = x.clone().requires_grad_()
        y = um(xl)
        (gx,) = torch.autograd.grad(y, xl)
    except Exception as e:  # noqa: BLE001
        res.fail(exc_bucket(f"C16.replace.raises:{c['variant']}", e)[:300], f"{type(e).__name__}: {str(e)[:300]}")
        return res
    xr = x.clone().requires_grad_()
    r, skip = U.residual_split(xr, 0.5)
    hh = U.linear(r, um.lin.weight, um.lin.bias)
    hh = my_gelu(hh, approximate="tanh") if c["variant"] == "builtin-overridden" else U.silu(hh)
    yr = U.residual_add(hh, skip, 0.5).sum()
    (gr,) = torch.autograd.grad(yr, xr)
    if not (close(y.detach(), yr.detach()) and close(gx, gr)):
        res.fail(f"C16.replace.value:{c['variant']}", f"{y.item()!r} vs {yr.item()!r}: the user-supplied replacement was not applied (or not with precedence)")
    res.nontrivial = True
    res.labels.append("replace:" + c["variant"])
    return res


CHECK = Check(
    id="C16",
    parts=[Part("programs", run, strategy=cases, budget={"quick": 360, "thorough": 12000}),
           Part("repeat", run_repeat, strategy=repeat_cases, budget={"quick": 8, "thorough": 80}),
           Part("replace", run_replace, strategy=replace_cases, budget={"quick": 12, "thorough": 100})],
    rule=("programs: Hypothesis-generated modules (rendered to source, exec'd, traced by the real TorchDynamo path of unit_scale): chains / "
          "DAGs of 1-16 ops over linear (positional / omitted / keyword bias, nn.Linear), matmul, gelu, silu, softmax, dropout, layer_norm, "
          "rms_norm, embedding, conv1d, attention, cross_entropy, mse_loss, nn.LayerNorm / nn.GELU / nn.Softmax / nn.Embedding wrappers, "
          "unmapped ops (tanh, relu, sin, mul, reshape, slicing, cat), adds written a+b / a+=b / torch.add / tensor+scalar, 0-4 well-nested "
          "residual blocks whose skip is an input, a residual output or a plain sum. Oracle: a reference interpreter applying the User-Guide "
          "recipe on the DSL's own data flow with parameters copied from the transformed module; outputs and all gradients (rtol 2e-5); "
          "original untouched; Linear/Embedding weights std 1, biases 0; node multiset of the rewritten FX graph. repeat: 10-12 instances of one generated model class unit-scaled in one process. replace: user replacement "
          "of a built-in mapped function and of a custom function. Non-trivial = program with >= 1 addition."),
    assumptions=["TorchDynamo capture of the generated constructs is PyTorch's behaviour (trusted)", "float32, rtol 2e-5 (observed: bit-equal)",
                 "arguments whose positional slot differs between torch and U functions are spelled by keyword (as torch.nn modules do)"],
    shards={"quick": 8, "thorough": 14},
    time_budget={"quick": 300.0, "thorough": 3000.0},
)

if __name__ == "__main__":
    main(CHECK)
