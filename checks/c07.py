"""C07 - the transformer residual rule balances layer contributions at every depth."""
from __future__ import annotations

import itertools
import math
from fractions import Fraction as Fr

from vlib import env  # noqa: F401
import torch
from hypothesis import strategies as st

from vlib.runner import CaseResult, Check, Part, exc_bucket, main

import unit_scaling as uu
from unit_scaling.core.functional import transformer_residual_scaling_rule

GRID = [Fr(1, 16), Fr(1, 8), Fr(1, 4), Fr(1, 3), Fr(1, 2), Fr(2, 3), Fr(3, 4), Fr(1), Fr(4, 3), Fr(3, 2), Fr(2), Fr(3), Fr(4),
        Fr(8), Fr(16), Fr(5, 7), Fr(7, 5)]
QUICK_GRID = [Fr(1, 16), Fr(1, 3), Fr(1), Fr(7, 5), Fr(16)]
QUICK_DEPTHS = list(range(1, 25)) + [31, 32, 33, 63, 64, 65, 127, 128, 129, 255, 256]
SUITE = {(1.0, 1.0, 4), (0.5, 1.0, 4), (1.0, 2.0, 4), (0.5, 1 / 3, 6)}  # (mult, ratio, branches) of the unit test


def expected_tau_sq(L: int, m: Fr, r: Fr):
    """closed form from the statement: C0 + L*A + L*Mm = 1, A/Mm = r^2, ((L*A + L*Mm)/2)/C0 = m^2;
    tau_i^2 = c_i / (C0 + sum_{j<i} c_j)"""
    C0 = 1 / (1 + 2 * m * m)
    Mm = 2 * m * m * C0 / (L * (1 + r * r))
    A = r * r * Mm
    acc = C0
    out = []
    for i in range(2 * L):
        c = A if i % 2 == 0 else Mm
        out.append(c / acc)
        acc += c
    assert acc == 1
    return out


def balance_from_taus(taus, L, m, r):
    """re-evaluate the five balance statements from the returned taus alone (float64; 2L <= 512 factors)"""
    n = len(taus)
    # weight of branch i at the output: tau_i^2/(1+tau_i^2) * prod_{j>i} 1/(1+tau_j^2)
    suffix = [1.0] * (n + 1)
    for i in range(n - 1, -1, -1):
        suffix[i] = suffix[i + 1] / (1 + taus[i] ** 2)
    w_emb = suffix[0]
    w = [taus[i] ** 2 / (1 + taus[i] ** 2) * suffix[i + 1] for i in range(n)]
    attn = w[0::2]
    mlp = w[1::2]
    errs = {}
    errs["sum"] = abs(w_emb + math.fsum(w) - 1)
    errs["attn-equal"] = max(abs(a - attn[0]) / attn[0] for a in attn)
    errs["mlp-equal"] = max(abs(a - mlp[0]) / mlp[0] for a in mlp)
    errs["ratio"] = abs(attn[0] / mlp[0] - float(r * r)) / float(r * r)
    errs["mult"] = abs((math.fsum(w) / 2) / w_emb - float(m * m)) / float(m * m)
    return errs


def check_config(res, L, m, r, taus, tag):
    exp = expected_tau_sq(L, m, r)
    if len(taus) != 2 * L:
        res.fail(f"C07.{tag}.count", f"{len(taus)} taus for {L} layers")
        return
    for i, (t, e) in enumerate(zip(taus, exp)):
        if not (isinstance(t, float) and t > 0 and math.isfinite(t)):
            res.fail(f"C07.{tag}.tau-invalid", f"tau[{i}]={t!r} (layers={L}, mult={m}, ratio={r})")
            return
        got = Fr(t) ** 2
        if abs(got - e) > e * Fr(1, 10**12):
            res.fail(f"C07.{tag}.closed-form:{'attn' if i % 2 == 0 else 'mlp'}",
                     f"tau[{i}]^2={float(got)!r} expected {float(e)!r} (layers={L}, mult={m}, ratio={r})")
            return
    errs = balance_from_taus(taus, L, m, r)
    for k, v in errs.items():
        res.stat(f"balance.{k}", v)
        if not v <= 1e-10:
            res.fail(f"C07.{tag}.balance:{k}", f"error {v:.3g} (layers={L}, mult={m}, ratio={r})")


# ------------------------------------------------------------------ rule grid


def enum_rule(ctx):
    grid = QUICK_GRID if ctx.tier == "quick" else GRID
    depths = QUICK_DEPTHS if ctx.tier == "quick" else list(range(1, 257))
    pairs = list(itertools.product(grid, grid))
    jobs = [(m, r, depths[k::4]) for (m, r) in pairs for k in range(4)]
    for i, (m, r, ds) in enumerate(jobs):
        if i % ctx.nshards == ctx.shard:
            yield dict(mult=[m.numerator, m.denominator], ratio=[r.numerator, r.denominator], depths=ds)


def run_rule(case) -> CaseResult:
    res = CaseResult()
    m = Fr(*case["mult"]); r = Fr(*case["ratio"])
    n = 0
    nt = 0
    shared = transformer_residual_scaling_rule(float(m), float(r))  # one rule object queried for many depths, as the stacks' shared default is
    for k_, L in enumerate(case["depths"]):
        try:
            rule = shared if k_ % 2 == 0 else transformer_residual_scaling_rule(float(m), float(r))
            order = range(2 * L) if k_ % 3 else reversed(range(2 * L))
            got = {i: rule(i, 2 * L) for i in order}
            taus = [got[i] for i in range(2 * L)]
        except Exception as e:  # noqa: BLE001
            res.fail(exc_bucket("C07.rule.raises", e), f"{e} (layers={L}, mult={m}, ratio={r})")
            continue
        check_config(res, L, m, r, taus, "rule")
        n += 1
        nt += (float(m), float(r), 2 * L) not in SUITE
    res.evals = n
    res.nontrivial_n = nt
    res.labels.append("rule-grid")
    res.sample = dict(mult=str(m), ratio=str(r), depths=case["depths"][:6], n_depths=len(case["depths"]))
    return res


# ------------------------------------------------------------------ wiring of the stack


@st.composite
def wiring_cases(draw, tier):
    top = 64 if tier == "quick" else 256
    L = draw(st.one_of(st.integers(1, 12), st.sampled_from([16, 31, 32, 33, 63, 64] + ([127, 128, 255, 256] if tier != "quick" else [])),
                       st.integers(1, top)))
    m = draw(st.sampled_from(GRID)); r = draw(st.sampled_from(GRID))
    return dict(layers=L, mult=[m.numerator, m.denominator], ratio=[r.numerator, r.denominator],
                default_rule=draw(st.integers(0, 5)) == 0, which=draw(st.sampled_from(["decoder", "stack"])),
                convert=draw(st.sampled_from([None, None, "bfloat16", "half", "double", "float"])), positional=draw(st.integers(0, 2)) == 0,
                reload=draw(st.sampled_from([None, None, "in-place", "fresh"])))


def run_wiring(case) -> CaseResult:
    res = CaseResult()
    L = case["layers"]
    m = Fr(*case["mult"]); r = Fr(*case["ratio"])
    calls = []
    if case["default_rule"]:
        m, r = Fr(1), Fr(1)
        kw = {}
    else:
        rule = transformer_residual_scaling_rule(float(m), float(r))

        def recording(index, layers):
            calls.append((index, layers))
            return rule(index, layers)
        kw = dict(residual_scaling=recording)
    try:
        if case["which"] == "decoder":
            if case.get("positional") and kw:
                mod = uu.TransformerDecoder(4, 8, L, 1, 0.0, kw["residual_scaling"])   # documented parameter order, all positional
            else:
                mod = uu.TransformerDecoder(hidden_size=4, vocab_size=8, layers=L, heads=1, **kw)
            stack = mod.layers
        else:
            from unit_scaling._modules import TransformerStack
            if case.get("positional") and kw:
                stack = TransformerStack(L, kw["residual_scaling"], hidden_size=4, heads=1, is_causal=True)   # (layers, residual_scaling, **layer options)
            else:
                stack = TransformerStack(layers=L, hidden_size=4, heads=1, is_causal=True, **kw)
        if case.get("positional") and kw:
            res.labels.append("positional-constructor")
    except Exception as e:  # noqa: BLE001
        res.fail(exc_bucket("C07.wiring.raises", e), f"{e}")
        return res
    if case.get("reload"):
        # a checkpoint round trip (state_dict -> load_state_dict, in place or into an identically built stack) must not touch the
        # residual weights either
        try:
            if case["reload"] == "in-place":
                stack.load_state_dict(stack.state_dict())
            else:
                import copy as _copy
                sd = _copy.deepcopy(stack.state_dict())
                from unit_scaling._modules import TransformerStack as _TS
                fresh = _TS(layers=L, hidden_size=4, heads=1, is_causal=True, **kw)
                fresh.load_state_dict(sd)
                stack = fresh
                calls[:] = calls[: 2 * L] if calls else calls   # (the second construction queried the rule again)
            res.labels.append("state_dict-round-trip:" + case["reload"])
        except Exception as e:  # noqa: BLE001
            res.fail(exc_bucket("C07.wiring.raises:reload", e), f"{e}")
            return res
    if case.get("convert"):
        # a dtype conversion of the constructed model must not touch the residual weights (they are hyper-parameters, not tensors)
        stack = getattr(stack, case["convert"])() if case["convert"] != "bfloat16" else stack.to(torch.bfloat16)
        res.labels.append("converted:" + case["convert"])
    layers = list(stack)
    if len(layers) != L:
        res.fail("C07.wiring.layer-count", f"{len(layers)} layers built for layers={L}")
        return res
    taus = []
    for lay in layers:
        taus += [lay.mhsa_tau, lay.mlp_tau]
    check_config(res, L, m, r, [float(t) for t in taus], "wiring")
    if not case["default_rule"]:
        want = [(i, 2 * L) for i in range(2 * L)]
        if sorted(calls) != want:
            res.fail("C07.wiring.calls", f"residual_scaling called with {calls[:6]}... expected (i, {2 * L}) for i in 0..{2 * L - 1}")
        else:
            # attention tau then MLP tau for each layer, in order
            for i, lay in enumerate(layers):
                if lay.mhsa_tau != rule(2 * i, 2 * L) or lay.mlp_tau != rule(2 * i + 1, 2 * L):
                    res.fail("C07.wiring.order", f"layer {i}: mhsa_tau/mlp_tau are not rule(2i)/rule(2i+1)")
                    break
    res.nontrivial = True
    res.labels += [case["which"], "default-rule" if case["default_rule"] else "custom-rule"]
    return res


CHECK = Check(
    id="C07",
    parts=[Part("rule", run_rule, enumerate=enum_rule, exhaustive={"quick": False, "thorough": True}),
           Part("wiring", run_wiring, strategy=wiring_cases, budget={"quick": 400, "thorough": 10000})],
    rule=("rule: every (depth, residual_mult, residual_attn_ratio) of the grid - thorough: depths 1..256 x 17 x 17 rational values in "
          "[1/16,16] (complete); quick: 35 depths x 5 x 5 - all 2L taus compared with the closed form derived from the statement in "
          "exact Fractions (rel 1e-12) and the five balance statements re-evaluated from the taus alone; wiring: Hypothesis over "
          "TransformerDecoder / TransformerStack (hidden 4, 1 head) depths x grid, taus read from the layers in order + recorded "
          "residual_scaling calls. Non-trivial = not one of the four (mult, ratio, depth) triples of the unit test; evaluations count configurations."),
    assumptions=["closed form: C0 = 1/(1+2 mult^2), Mm = 2 mult^2 C0/(L(1+ratio^2)), A = ratio^2 Mm, tau_i^2 = c_i/(C0 + sum_{j<i} c_j) (derived in DESIGN.md)",
                 "balance statements recomputed in float64 (<= 512 factors, tolerance 1e-10)"],
    shards={"quick": 8, "thorough": 14},
)

if __name__ == "__main__":
    main(CHECK)
