"""C02 - gradients are PyTorch's gradients times per-input data-independent positive scalars."""
from __future__ import annotations

import math

from vlib import env  # noqa: F401
import torch
from hypothesis import strategies as st

from vlib import probes as pb
from vlib.runner import CaseResult, Check, Part, exc_bucket, main

from unit_scaling.scale import scale_bwd, scale_fwd


def strategy(tier):
    return pb.op_cases()


def run(case) -> CaseResult:
    res = CaseResult()
    op = case["op"]
    res.labels += pb.class_labels(case)
    P = pb.probe(case, want_bwd=True, upstream=2)
    res.labels.append(P.status)
    for b, m in P.bwd_fails:
        res.fail("C02." + b, m)
    if P.status != "ok" or P.fwd_fails:
        return res
    for role in P.s_bwd:
        res.labels.append(f"role={op}:{role}")
        res.stat(f"s_bwd[{op}:{role}]", P.s_bwd[role][0])
    # repeated call: identical outputs and gradients (RNG ops are re-seeded inside the call)
    bu = pb.build(case, case["seedA"])
    outs = []
    ts = [t.clone().requires_grad_() for t in bu.ts]   # the SAME leaf tensors are passed to every call (nothing may stick to them)
    for _ in range(3):
        y = bu.u(*ts)
        g = pb.rt(tuple(y.shape), case["seedG"], "normal", y.dtype)
        gs = torch.autograd.grad(y, ts, g, allow_unused=True)
        outs.append((y.detach(), gs))
    for k in (1, 2):
        if not torch.equal(outs[0][0], outs[k][0]):
            res.fail(f"C02.repeat.output:{op}", f"call {k + 1} on the same tensors returned different values than call 1")
            break
        bad = False
        for role, a, b in zip(bu.roles, outs[0][1], outs[k][1]):
            if (a is None) != (b is None) or (a is not None and not torch.equal(a, b)):
                res.fail(f"C02.repeat.grad:{op}:{role}", f"call {k + 1} on the same tensors delivered a different gradient than call 1")
                bad = True
        if bad:
            break
    # non-differentiable inputs receive no gradient: float masks / probability targets are passed
    # through untouched by the library, so only check integer inputs cannot get one (structural) -
    # covered by the presence clause inside probe (library grad present iff reference grad present).
    res.nontrivial = P.grads_fit > 0 and pb.nontrivial_config(case)
    return res


# ------------------------------------------------------------------ primitives

factors = st.one_of(st.sampled_from([0.0, 1.0, -1.0, -0.0, 2.0, -0.5, 1e3, -1e3, 1e-3]),
                    st.floats(-1e3, 1e3, allow_nan=False), st.integers(-1000, 1000))


@st.composite
def prim_cases(draw, tier):
    return dict(which=draw(st.sampled_from(["scale_fwd", "scale_bwd"])), factor=draw(factors),
                dtype=draw(st.sampled_from(["float64", "float32", "bfloat16", "float16"])),
                # the same factor is first used on tensors of these other dtypes (state carried over between calls must not matter)
                before=draw(st.lists(st.sampled_from(["float64", "float32", "bfloat16", "float16"]), min_size=0, max_size=3)),
                shape=draw(st.lists(st.integers(0, 4) if draw(st.integers(0, 9)) == 0 else st.integers(1, 4), min_size=0, max_size=4)),
                prof=draw(st.sampled_from(["normal", "big", "small", "ints", "sparse"])), seed=draw(pb.seeds),
                noncontig=draw(st.booleans()))


EPS = {"float64": 2.0**-52, "float32": 2.0**-23, "bfloat16": 2.0**-7, "float16": 2.0**-10}
SUBNORMAL = {"float64": 2.0**-1074, "float32": 2.0**-149, "bfloat16": 2.0**-133, "float16": 2.0**-24}  # spacing below min normal


def run_prim(case) -> CaseResult:
    res = CaseResult()
    for dt_name in case.get("before", []):
        one = _run_prim_once(dict(case, dtype=dt_name, before=[]), CaseResult())
        res.fails += [type(f)(f.bucket + ":earlier-call", f.msg) for f in one.fails]
    if case.get("before"):
        res.labels.append("after-other-dtypes")
    return _run_prim_once(case, res)


def _run_prim_once(case, res) -> CaseResult:
    a = case["factor"]
    dt = pb.DT[case["dtype"]]
    which = case["which"]
    f = scale_fwd if which == "scale_fwd" else scale_bwd
    x = pb.rt(case["shape"], case["seed"], case["prof"], dt)
    if case["noncontig"] and x.dim() >= 2:
        x = x.transpose(0, -1)
    x = x.clone().requires_grad_() if not (case["noncontig"] and x.dim() >= 2) else x.detach().requires_grad_()
    keep = x.detach().clone()
    g = pb.rt(tuple(x.shape), case["seed"] + 1, "normal", dt)
    res.labels += [which, f"dtype={case['dtype']}", f"rank={x.dim()}",
                   "factor:" + ("zero" if a == 0 else "negative" if a < 0 else "one" if a == 1 else "positive")]
    try:
        y = f(x, a)
        (gx,) = torch.autograd.grad(y, x, g) if x.numel() or True else (None,)
    except Exception as e:  # noqa: BLE001
        res.fail(exc_bucket(f"C02.prim.raises:{which}", e), f"{type(e).__name__}: {e}")
        return res
    if y.shape != x.shape or y.dtype != x.dtype or gx.shape != x.shape or gx.dtype != x.dtype:
        res.fail(f"C02.prim.shape-dtype:{which}", f"{tuple(y.shape)} {y.dtype} / grad {tuple(gx.shape)} {gx.dtype} for input {tuple(x.shape)} {x.dtype}")
        return res
    if not torch.equal(x.detach(), keep):
        res.fail(f"C02.prim.input-modified:{which}", "")
    eps = EPS[case["dtype"]]

    def close(got, want64, exact_ok):
        got = got.detach().to(torch.float64)
        if exact_ok:
            return torch.equal(got, want64)
        return bool(((got - want64).abs() <= 2 * eps * want64.abs() + SUBNORMAL[case["dtype"]]).all())

    x64 = keep.to(torch.float64)
    g64 = g.to(torch.float64)
    if which == "scale_fwd":
        # forward = a * x in the tensor's dtype (bitwise the same product); gradient untouched (bitwise)
        want = (a * keep)
        if not torch.equal(y.detach(), want) and not close(y, float(a) * x64, case["dtype"] == "float64"):
            res.fail(f"C02.prim.value:{which}", f"factor={a!r} dtype={case['dtype']}")
        if not torch.equal(gx, g):
            res.fail(f"C02.prim.grad:{which}", f"gradient changed by a forward-only scale (factor={a!r})")
    else:
        if not torch.equal(y.detach(), keep):
            res.fail(f"C02.prim.value:{which}", f"forward value changed by a backward-only scale (factor={a!r})")
        a_dt = float(torch.tensor(a, dtype=dt).to(torch.float64))  # the factor is stored in the tensor's dtype
        want64 = a_dt * g64
        if not close(gx, want64, case["dtype"] == "float64"):
            res.fail(f"C02.prim.grad:{which}", f"gradient != factor * upstream (factor={a!r}, dtype={case['dtype']})")
    res.nontrivial = x.numel() > 0 and a != 1
    return res


CHECK = Check(
    id="C02",
    parts=[Part("functional", run, strategy=strategy, budget={"quick": 4000, "thorough": 300000}),
           Part("primitives", run_prim, strategy=prim_cases, budget={"quick": 3000, "thorough": 200000})],
    rule=("functional: same generator as C01 plus two upstream-gradient draws per data draw; every differentiable input's "
          "autograd gradient is fitted against the reference op's gradient for the same upstream (sum-reduced reference for "
          "mean-reduced losses). Non-trivial = at least one fit-able gradient and a batch dim > 1 or non-default "
          "hyper-parameter/dtype/constraint. primitives: scale_fwd/scale_bwd with factors in [-1e3,1e3] incl. 0, +-1, negative, "
          "rank 0-4, four dtypes; non-trivial = non-empty tensor and factor != 1."),
    assumptions=["PyTorch autograd of the reference op is the trusted base", "tolerances per dtype as in DESIGN.md section 3",
                 "scale_bwd stores its factor in the tensor's dtype: gradient compared to dtype-rounded factor x upstream within 2 ulp"],
    shards={"quick": 8, "thorough": 14},
    time_budget={"quick": 240.0, "thorough": 2400.0},
)

if __name__ == "__main__":
    main(CHECK)
