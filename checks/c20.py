"""C20 - eager and torch.compile execution of scaled ops agree (fx: forward values)."""
from __future__ import annotations

from vlib import env  # noqa: F401
import torch
from hypothesis import strategies as st
from torch import fx, nn

from vlib import dsl
from vlib import probes as pb
from vlib.runner import CaseResult, Check, Part, exc_bucket, main

from checks import c08

DTYPES = ["float32", "float32", "float64", "bfloat16"]
TOL = {"float64": 1e-10, "float32": 2e-5, "bfloat16": 5e-2}


def deterministic(c):
    """drop the stochastic configurations: eager and compiled RNG streams are not comparable"""
    if c["op"] == "dropout" and c["training"]:
        c["p"] = 0.0
    if c["op"] == "sdpa":
        c["dropout_p"] = 0.0
    if c["op"] == "embedding":
        c["max_norm"] = None  # in-place renormalisation of the table: excluded (mutation under tracing is PyTorch's business)
    c["no_seed"] = True  # the probe closures must not call torch.manual_seed inside a compiled region
    return c


@st.composite
def fn_cases(draw, tier):
    c = draw(pb.op_cases(dtypes=DTYPES, profiles=["normal", "normal", "ints"]))
    c = deterministic(c)
    c["backend"] = draw(st.sampled_from(["aot_eager"] * 12 + (["inductor"] if tier == "thorough" else [])))
    return c


def close(a, b, tol):
    if a is None or b is None:
        return (a is None) == (b is None)
    if a.shape != b.shape or a.dtype != b.dtype:
        return False
    a64, b64 = a.detach().double(), b.detach().double()
    if not torch.equal(a64.isnan(), b64.isnan()):
        return False
    a64, b64 = a64.nan_to_num(0.0), b64.nan_to_num(0.0)
    scale = max(1.0, float(b64.abs().max())) if b64.numel() else 1.0
    return bool(((a64 - b64).abs() <= tol * scale).all())


def run_fn(c) -> CaseResult:
    res = CaseResult()
    op = c["op"]
    res.labels += [f"op={op}", f"dtype={c['dtype']}", f"backend={c['backend']}"]
    bu = pb.build(c, c["seedA"])
    frozen = c["frozen_role"] % len(bu.ts) if (c.get("frozen_role") is not None and len(bu.ts) >= 2) else None
    if frozen is not None:
        res.labels.append("one-operand-without-grad")
    ts = [t.clone().requires_grad_(i != frozen) for i, t in enumerate(bu.ts)]
    if c.get("constraint", "default") != "default" and c["seedB"] % 2 == 0:
        # eager mode in a long-lived process: the same op has been called before with the same geometry but another constraint
        # (a compiled region is traced afresh; the eager call must not depend on that history either)
        other = "to_output_scale" if c["constraint"] != "to_output_scale" else None
        try:
            pb.build(dict(c, constraint=other), c["seedA"]).u(*[t.clone() for t in bu.ts])
            res.labels.append("eager-history:other-constraint")
        except Exception:  # noqa: BLE001
            pass
    try:
        y = bu.u(*ts)
    except Exception:  # noqa: BLE001  (unsupported combination in eager: C01's business)
        res.labels.append("eager-raises")
        return res
    if not bool(torch.isfinite(y.detach().double()).all()):
        res.labels.append("degenerate")
        return res
    up = pb.rt(tuple(y.shape), c["seedG"], "normal", y.dtype, salt=3)
    if c.get("up_layout") == "partial-reduction" and y.dim() >= 2:
        # the gradient a partial reduction (y.sum(dim=k)) sends back: constant along one dimension, stride 0 there
        up = up.narrow(c["seedG"] % y.dim(), 0, 1).expand(y.shape)
        res.labels.append("upstream=partial-reduction")
    g = pb._agrad(y, ts, up)
    tol = TOL[c["dtype"]]
    if op == "rms_norm":
        tol = max(tol, 2e-5)   # float32 denominator by design (see above)
    try:
        torch._dynamo.reset()
        cf = torch.compile(bu.u, backend=c["backend"], fullgraph=True)
        tc = [t.clone().requires_grad_(i != frozen) for i, t in enumerate(bu.ts)]
        yc = cf(*tc)
        gc = pb._agrad(yc, tc, up)
    except Exception as e:  # noqa: BLE001
        res.fail(exc_bucket(f"C20.compile.raises:{op}:{c['backend']}", e).replace("outside-library", "in-torch")[:300], f"{type(e).__name__}: {str(e)[:400]}")
        return res
    if not close(yc, y, tol):
        res.fail(f"C20.compile.value:{op}:{c['dtype']}", f"compiled ({c['backend']}) output differs from eager: max {(yc.double() - y.double()).abs().max().item():.3g}")
    for role, a, b in zip(bu.roles, gc, g):
        if not close(a, b, tol * 10):
            res.fail(f"C20.compile.grad:{op}:{role}:{c['dtype']}", f"compiled ({c['backend']}) gradient wrt {role} differs from eager"
                     + ("" if a is None or b is None else f": max {(a.double() - b.double()).abs().max().item():.3g}"))
    res.nontrivial = (c.get("constraint", "default") is None) or c["dtype"] != "float32"
    return res


# ------------------------------------------------------------------ modules


@st.composite
def mod_cases(draw, tier):
    c = draw(c08.cases(tier))
    for k in ("dropout_p", "p"):
        if k in c:
            c[k] = 0.0
    if c["cls"] == "Embedding":
        c["max_norm"] = None
    c["backend"] = draw(st.sampled_from(["aot_eager"] * 10 + (["inductor"] if tier == "thorough" else [])))
    return c


def run_mod(c) -> CaseResult:
    res = CaseResult()
    cls = c["cls"]
    res.labels += [f"cls={cls}", f"backend={c['backend']}"]
    m, xs, fn, twin, one = c08.build(c)
    params = list(m.parameters())
    fl = [x.clone().requires_grad_() if x.is_floating_point() else x for x in xs]
    diff = [t for t in fl if t.is_floating_point()] + params
    y = m(*fl)
    if not bool(torch.isfinite(y.detach()).all()):
        return res
    up = torch.randn(y.shape, generator=torch.Generator().manual_seed(c["seed"] + 5), dtype=y.dtype)
    if c["seed"] % 3 == 0 and y.dim() >= 2:
        up = up.narrow(c["seed"] % y.dim(), 0, 1).expand(y.shape)   # as sent back by y.sum(dim=k)
        res.labels.append("upstream=partial-reduction")
    g = torch.autograd.grad(y, diff, up, allow_unused=True)
    try:
        torch._dynamo.reset()
        cm = torch.compile(m, backend=c["backend"], fullgraph=True)
        fc = [x.clone().requires_grad_() if x.is_floating_point() else x for x in xs]
        yc = cm(*fc)
        gc = torch.autograd.grad(yc, [t for t in fc if t.is_floating_point()] + params, up, allow_unused=True)
    except Exception as e:  # noqa: BLE001
        res.fail(exc_bucket(f"C20.compile.raises:{cls}:{c['backend']}", e).replace("outside-library", "in-torch")[:300], f"{type(e).__name__}: {str(e)[:400]}")
        return res
    # modules that contain RMS normalisation compute its denominator in float32 by design: a code generator may legitimately
    # fuse / reorder that float32 arithmetic, so only float32-level agreement can be asked of them
    f32_inside = cls in ("RMSNorm", "TransformerLayer", "TransformerDecoder") or c.get("dtype") == "float32"
    if not close(yc, y, 2e-5 if f32_inside else 1e-10):
        res.fail(f"C20.compile.value:{cls}", f"compiled ({c['backend']}) module output differs from eager: max {(yc - y).abs().max().item():.3g}")
    for i, (a, b) in enumerate(zip(gc, g)):
        if not close(a, b, 2e-4 if f32_inside else 1e-9):
            res.fail(f"C20.compile.grad:{cls}", f"compiled ({c['backend']}) gradient {i} differs from eager")
            break
    res.nontrivial = True
    return res


# ------------------------------------------------------------------ compositions of unit-scaled ops (hand conversion of DSL programs)


@st.composite
def comp_cases(draw, tier):
    prog = draw(dsl.unit_programs(max_ops=6))
    return dict(prog=prog, seed=draw(st.integers(0, 10**6)), backend="aot_eager")


def run_comp(c) -> CaseResult:
    res = CaseResult()
    prog = c["prog"]
    m = dsl.build_module(prog, c["seed"])
    P = dict(m.named_parameters())
    inputs = dsl.make_inputs(prog, c["seed"])
    names = [k for k in ("x", "x2") if k in inputs]

    def fn(*ts):
        inp = dict(inputs)
        inp.update(dict(zip(names, ts)))
        return dsl.evaluate(prog, dsl.named_tensors(m), inp, dsl.Unit())
    t1 = [inputs[k].clone().requires_grad_() for k in names]
    y = fn(*t1)
    g = torch.autograd.grad(y, t1 + list(P.values()), allow_unused=True)
    try:
        torch._dynamo.reset()
        cf = torch.compile(fn, backend=c["backend"])
        t2 = [inputs[k].clone().requires_grad_() for k in names]
        yc = cf(*t2)
        gc = torch.autograd.grad(yc, t2 + list(P.values()), allow_unused=True)
    except Exception as e:  # noqa: BLE001
        res.fail(exc_bucket("C20.compile.raises:composition", e).replace("outside-library", "in-torch")[:300], f"{type(e).__name__}: {str(e)[:400]}\n{m._verif_source}")
        return res
    if not close(yc, y, 2e-5):
        res.fail("C20.compile.value:composition", f"compiled composition differs from eager: {yc.item()!r} vs {y.item()!r}\n{m._verif_source}")
    for a, b in zip(gc, g):
        if not close(a, b, 2e-4):
            res.fail("C20.compile.grad:composition", f"compiled composition gradient differs from eager\n{m._verif_source}")
            break
    res.nontrivial = True
    res.labels.append("composition")
    return res


# ------------------------------------------------------------------ fx symbolic tracing: forward values


class FnModule(nn.Module):
    def __init__(self, f):
        super().__init__()
        self.f = f

    def forward(self, a, b=None, c=None):
        args = [t for t in (a, b, c) if t is not None]
        return self.f(*args)


@st.composite
def fx_cases(draw, tier):
    c = draw(pb.op_cases(dtypes=["float32", "float64"], profiles=["normal"]))
    return deterministic(c)


def run_fx(c) -> CaseResult:
    res = CaseResult()
    op = c["op"]
    bu = pb.build(c, c["seedA"])
    ts = [t.clone() for t in bu.ts]
    try:
        y = bu.u(*ts)
    except Exception:  # noqa: BLE001
        return res
    mod = FnModule(bu.u)
    concrete = {k: None for k in ("a", "b", "c")[len(ts):]}
    try:
        gm = fx.symbolic_trace(mod, concrete_args=concrete or None)
    except Exception as e:  # noqa: BLE001
        res.labels.append(f"fx-untraceable:{op}")
        return res
    try:
        yf = gm(*ts, *([None] * (3 - len(ts))))
    except Exception as e:  # noqa: BLE001
        res.fail(exc_bucket(f"C20.fx.raises:{op}", e).replace("outside-library", "in-torch")[:300], f"{type(e).__name__}: {str(e)[:300]}")
        return res
    if not close(yf, y, TOL[c["dtype"]]):
        res.fail(f"C20.fx.value:{op}", f"fx.GraphModule forward differs from eager: max {(yf.double() - y.double()).abs().max().item():.3g}")
    res.nontrivial = True
    res.labels.append(f"fx-traced:{op}")
    return res


# ------------------------------------------------------------------ compiled regions that END in a scaling primitive


@st.composite
def prim_cases(draw, tier):
    return dict(kind=draw(st.sampled_from(["scale_bwd", "scale_fwd", "residual_split", "residual_split_input", "split_add", "split_op_add"])),
                inner=draw(st.sampled_from(["linear", "gelu", "mul", "none"])), tau=draw(st.sampled_from([0.5, 1.0, 0.1, 3.0])),
                factor=draw(st.sampled_from([0.5, 2.0, -1.5, 0.0, 3 ** -0.5])), dtype=draw(st.sampled_from(["float32", "float64"])),
                seed=draw(st.integers(0, 10**6)), backend="aot_eager", h=draw(st.integers(2, 5)), use=draw(st.sampled_from(["both", "both", "first", "second"])))


def run_prim(c) -> CaseResult:
    """the compiled region returns the outputs of scale_fwd / scale_bwd / residual_split directly (AOT autograd treats outputs that
    alias graph intermediates specially): values and gradients must still equal eager"""
    import unit_scaling.functional as U
    from unit_scaling.scale import scale_bwd, scale_fwd
    res = CaseResult()
    dt = pb.DT[c["dtype"]]
    g = torch.Generator().manual_seed(c["seed"])
    h = c["h"]
    x0 = torch.randn(3, h, generator=g, dtype=dt)
    w0 = torch.randn(h, h, generator=g, dtype=dt)
    tau, a = c["tau"], c["factor"]

    def inner(x, w):
        return {"linear": lambda: U.linear(x, w, None), "gelu": lambda: U.gelu(x), "mul": lambda: x * 1.5, "none": lambda: x}[c["inner"]]()

    def fn(x, w):
        t = inner(x, w)
        k = c["kind"]
        if k == "scale_bwd":
            return (scale_bwd(t, a),)
        if k == "scale_fwd":
            return (scale_fwd(t, a),)
        if k == "residual_split":
            return U.residual_split(t, tau)
        if k == "residual_split_input":
            return U.residual_split(x, tau)
        r, s_ = U.residual_split(t, tau)
        if k == "split_op_add":
            r = torch.tanh(r)
        return (U.residual_add(r, s_, tau),)

    def run(f):
        x = x0.clone().requires_grad_()
        w = w0.clone().requires_grad_()
        outs = f(x, w)
        ups = [torch.randn(o.shape, generator=torch.Generator().manual_seed(c["seed"] + i), dtype=o.dtype) for i, o in enumerate(outs)]
        used = list(range(len(outs)))
        if len(outs) == 2 and c.get("use") in ("first", "second"):
            used = [0] if c["use"] == "first" else [1]   # only one output of the pair reaches the loss (layer-drop: out = skip)
        gs = torch.autograd.grad([outs[i] for i in used], [x, w], [ups[i] for i in used], allow_unused=True)
        return [o.detach() for o in outs], gs
    o0, g0 = run(fn)
    try:
        torch._dynamo.reset()
        o1, g1 = run(torch.compile(fn, backend=c["backend"], fullgraph=True))
    except Exception as e:  # noqa: BLE001
        res.fail(exc_bucket(f"C20.compile.raises:primitive:{c['kind']}", e).replace("outside-library", "in-torch")[:300], f"{type(e).__name__}: {str(e)[:300]}")
        return res
    tol = TOL[c["dtype"]]
    if not all(close(a_, b_, tol) for a_, b_ in zip(o1, o0)):
        res.fail(f"C20.compile.value:primitive:{c['kind']}", f"compiled region ending in {c['kind']} (inner={c['inner']}) returns other values than eager")
    if not all(close(a_, b_, tol * 10) for a_, b_ in zip(g1, g0)):
        res.fail(f"C20.compile.grad:primitive:{c['kind']}", f"compiled region ending in {c['kind']} (inner={c['inner']}, tau={tau}, factor={a}): gradients differ from eager")
    res.nontrivial = True
    res.labels.append("primitive:" + c["kind"])
    if c.get("use", "both") != "both" and c["kind"].startswith("residual_split"):
        res.labels.append("one-output-unused")
    return res


# ------------------------------------------------------------------ the library's leaf-wrapping tracer: gradients too


@st.composite
def leaf_cases(draw, tier):
    prog = draw(dsl.track_programs(max_ops=8))
    if prog["ret"]["kind"] == "tuple":
        prog["ret"] = dict(kind="dot", var=prog["ret"]["vars"][0])
    return dict(prog=prog, seed=draw(st.integers(0, 10**6)))


def run_leaf(c) -> CaseResult:
    from unit_scaling.utils import _DeepTracer
    res = CaseResult()
    prog = c["prog"]
    m = dsl.build_module(prog, c["seed"])
    inputs = dsl.make_inputs(prog, c["seed"])
    order = dsl.forward_args(prog)

    def run(f):
        ins = [inputs[k].clone().requires_grad_() if inputs[k].is_floating_point() else inputs[k].clone() for k in order]
        for p in m.parameters():
            p.grad = None
        y = f(*ins)
        y.backward()
        return y.detach().clone(), [None if (not t.is_floating_point() or t.grad is None) else t.grad.clone() for t in ins], \
            [None if p.grad is None else p.grad.clone() for p in m.parameters()]
    y0, gi0, gp0 = run(m)
    try:
        tracer = _DeepTracer()
        graph = tracer.trace(m)
        gm = fx.GraphModule(tracer.root, graph)
        y1, gi1, gp1 = run(gm)
    except Exception as e:  # noqa: BLE001
        res.fail(exc_bucket("C20.leaf-tracer.raises", e).replace("outside-library", "in-torch")[:300], f"{type(e).__name__}: {str(e)[:300]}\n{m._verif_source}")
        return res
    if not close(y1, y0, 2e-5):
        res.fail("C20.leaf-tracer.value", f"graph traced with the library's leaf-wrapping tracer differs from eager in the forward value\n{m._verif_source}")
    for a, b in list(zip(gi1, gi0)) + list(zip(gp1, gp0)):
        if not close(a, b, 2e-4):
            res.fail("C20.leaf-tracer.grad", f"graph traced with the library's leaf-wrapping tracer delivers different gradients than eager\n{m._verif_source}")
            break
    res.nontrivial = True
    res.labels.append("leaf-tracer")
    return res


CHECK = Check(
    id="C20",
    parts=[Part("functions", run_fn, strategy=fn_cases, budget={"quick": 240, "thorough": 4000}),
           Part("modules", run_mod, strategy=mod_cases, budget={"quick": 50, "thorough": 1500}),
           Part("compositions", run_comp, strategy=comp_cases, budget={"quick": 16, "thorough": 200}),
           Part("primitives", run_prim, strategy=prim_cases, budget={"quick": 120, "thorough": 3000}),
           Part("leaf-tracer", run_leaf, strategy=leaf_cases, budget={"quick": 120, "thorough": 3000}),
           Part("fx", run_fx, strategy=fx_cases, budget={"quick": 200, "thorough": 8000})],
    rule=("functions: every public function with C01's shapes / hyper-parameters / constraints in float32, float64, bfloat16, eager vs "
          "torch.compile(fullgraph=True) after torch._dynamo.reset(), backend aot_eager (quick) and inductor (1/13 of thorough cases); outputs "
          "and all gradients for the same upstream gradient within the dtype tolerance. modules: C08's module configurations compiled as "
          "modules. compositions: User-Guide hand conversions of random DSL programs (2-6 unit-scaled ops) compiled as plain functions. primitives: compiled regions whose *outputs* are the results of scale_fwd / scale_bwd / residual_split applied to an input or an intermediate (and split/op/add), values and gradients vs eager. leaf-tracer: DSL modules (incl. direct U.scale_fwd / U.scale_bwd calls) traced with the library's own leaf-wrapping tracer, forward values and all gradients vs eager. fx: "
          "fx.symbolic_trace + GraphModule forward values (ops whose Python-level shape arithmetic plain fx cannot trace are counted, not failed). "
          "Stochastic configurations (dropout p>0 in training) are excluded: eager and compiled RNG streams are not comparable. "
          "Non-trivial = constraint None (distinct forward/backward factors) or a non-float32 dtype; modules/compositions/fx always."),
    assumptions=["tolerances: float64 1e-10, float32 2e-5, bfloat16 5e-2 (x10 for gradients)", "gradients through plain fx graphs are not claimed (by design); "
                 "the library's leaf-wrapping analyser is covered by C18", "inductor only in the thorough tier (7-18 s per compile)"],
    shards={"quick": 8, "thorough": 14},
    time_budget={"quick": 400.0, "thorough": 3300.0},
)

if __name__ == "__main__":
    main(CHECK)
