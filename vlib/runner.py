"""Shard / seed plumbing, collect-then-shrink, known findings, evidence, replay.

A check module builds a :class:`Check` and calls ``main(check)``.  A check is a list of
*parts*; each part turns *case descriptors* (plain JSON-able dicts) into a
:class:`CaseResult` through a pure function ``run(case)``.  Hypothesis parts draw the
descriptors from a strategy, enumeration parts yield them from a generator.  Because a
case is data, a failing one is written to ``replays/<ID>/<sha>.json`` verbatim and
``./check <ID> --replay <file>`` runs it again without Hypothesis.

Exit codes: 0 held / 1 violation (``VIOLATION property=<id> replay=<path>``) / 2 harness error.
"""
from __future__ import annotations

import argparse
import collections
import fnmatch
import hashlib
import json
import math
import os
import signal
import subprocess
import sys
import time
import traceback
from dataclasses import dataclass, field
from typing import Any, Callable, Dict, Iterable, Iterator, List, Optional

from . import env

VERIF_ROOT = env.VERIF_ROOT


# --------------------------------------------------------------------------- results


@dataclass
class Fail:
    bucket: str  # root-cause bucket: "<clause>:<site>:<feature>"
    msg: str


@dataclass
class CaseResult:
    fails: List[Fail] = field(default_factory=list)
    nontrivial: bool = False
    labels: List[str] = field(default_factory=list)
    evals: int = 1  # how many inputs this case stands for (chunks of an enumeration)
    nontrivial_n: Optional[int] = None  # for chunk cases: counted non-trivial inputs
    sample: Any = None  # optional richer sample to show instead of the descriptor
    stats: Dict[str, float] = field(default_factory=dict)  # observed min/max values

    def fail(self, bucket: str, msg: str = "") -> None:
        self.fails.append(Fail(bucket, str(msg)[:600]))

    def label(self, *names: str) -> None:
        self.labels.extend(names)

    def stat(self, name: str, value: float) -> None:
        if value is None or (isinstance(value, float) and math.isnan(value)):
            return
        lo = self.stats.get(name + ".min")
        hi = self.stats.get(name + ".max")
        self.stats[name + ".min"] = value if lo is None else min(lo, value)
        self.stats[name + ".max"] = value if hi is None else max(hi, value)


@dataclass
class Part:
    name: str
    run: Callable[[dict], CaseResult]
    strategy: Any = None  # callable tier -> hypothesis strategy of dict   (kind "hyp")
    enumerate: Any = None  # callable ctx -> iterator of dict               (kind "enum")
    budget: Dict[str, int] = field(default_factory=dict)  # tier -> number of cases (hyp)
    exhaustive: Dict[str, bool] = field(default_factory=dict)  # tier -> finite space fully covered


@dataclass
class Check:
    id: str
    parts: List[Part]
    rule: str
    assumptions: List[str]
    shards: Dict[str, int] = field(default_factory=lambda: {"quick": 8, "thorough": 14})
    selftest: Optional[Callable[[], None]] = None  # raises on oracle self-test failure
    time_budget: Dict[str, float] = field(default_factory=lambda: {"quick": 240.0, "thorough": 3000.0})
    level: str = "exploration"

    def part(self, name: str) -> Part:
        for p in self.parts:
            if p.name == name:
                return p
        raise KeyError(name)


@dataclass
class Ctx:
    tier: str
    seed: int
    shard: int
    nshards: int
    deadline: float
    check_id: str
    workdir: str = ""

    def expired(self) -> bool:
        return time.time() > self.deadline


class HarnessError(Exception):
    pass


# --------------------------------------------------------------------------- helpers


def jdump(obj: Any) -> str:
    return json.dumps(obj, sort_keys=True, default=_jdefault)


def _jdefault(o: Any) -> Any:
    try:
        import torch

        if isinstance(o, torch.dtype):
            return str(o)
        if isinstance(o, torch.Size):
            return list(o)
        if isinstance(o, torch.Tensor):
            return o.tolist()
    except Exception:
        pass
    if isinstance(o, (set, frozenset, tuple)):
        return list(o)
    return repr(o)


def case_hash(case: dict) -> str:
    return hashlib.sha1(jdump(case).encode()).hexdigest()[:12]


def load_known() -> List[dict]:
    path = os.path.join(VERIF_ROOT, "known_findings.json")
    if not os.path.exists(path):
        return []
    with open(path) as f:
        data = json.load(f)
    return list(data.get("findings", []))


def known_match(known: List[dict], prop: str, bucket: str) -> Optional[dict]:
    for k in known:
        if k.get("status") != "known" or k.get("property") != prop:
            continue
        if fnmatch.fnmatchcase(bucket, k["bucket"]):
            return k
    return None


def lib_frame(tb) -> Optional[str]:
    """innermost traceback frame located in the library under test"""
    best = None
    for fr in traceback.extract_tb(tb):
        fn = os.path.abspath(fr.filename)
        if fn.startswith(os.path.join(env.REPO, "unit_scaling") + os.sep):
            best = f"{os.path.relpath(fn, env.REPO)}:{fr.name}"
    return best


def exc_bucket(clause: str, e: BaseException) -> str:
    fr = lib_frame(e.__traceback__)
    return f"{clause}:raises:{type(e).__name__}:{fr or 'outside-library'}"


# --------------------------------------------------------------------------- collector


class Collector:
    def __init__(self, check: Check, known: List[dict]):
        self.check = check
        self.known = known
        self.evaluations = 0
        self.cases = 0
        self.nontrivial: set = set()
        self.nontrivial_extra = 0  # counted inputs of chunk cases
        self.classes: collections.Counter = collections.Counter()
        self.samples: List[Any] = []
        self.fails: Dict[str, dict] = {}
        self.excluded: collections.Counter = collections.Counter()
        self.stats: Dict[str, float] = {}
        self.harness_errors: List[str] = []
        self.budget_exhausted = False
        self.spill: Optional[str] = None

    def record(self, case: dict, res: CaseResult) -> None:
        self.cases += 1
        self.evaluations += res.evals
        for lab in res.labels:
            self.classes[lab] += 1
        if res.nontrivial_n is not None:
            self.nontrivial_extra += res.nontrivial_n
            if res.nontrivial_n and len(self.samples) < 6:
                self.samples.append(res.sample if res.sample is not None else case)
        elif res.nontrivial:
            h = case_hash(case)
            if h not in self.nontrivial:
                self.nontrivial.add(h)
                if len(self.samples) < 6:
                    self.samples.append(res.sample if res.sample is not None else case)
        for k, v in res.stats.items():
            if k.endswith(".min"):
                self.stats[k] = v if k not in self.stats else min(self.stats[k], v)
            else:
                self.stats[k] = v if k not in self.stats else max(self.stats[k], v)
        size = len(jdump(case))
        for f in res.fails:
            km = known_match(self.known, self.check.id, f.bucket)
            if km is not None:
                self.excluded[km["bucket"]] += 1
                continue
            cur = self.fails.get(f.bucket)
            if cur is None:
                self.fails[f.bucket] = dict(bucket=f.bucket, msg=f.msg, case=case, size=size, count=1)
                if self.spill:  # survives a native crash of this shard later on
                    try:
                        with open(self.spill, "a") as fh:
                            fh.write(jdump(self.fails[f.bucket]) + "\n")
                    except OSError:
                        pass
            else:
                cur["count"] += 1
                if size < cur["size"]:
                    cur.update(msg=f.msg, case=case, size=size)

    def to_json(self) -> dict:
        return dict(
            evaluations=self.evaluations,
            cases=self.cases,
            nontrivial=sorted(self.nontrivial),
            nontrivial_extra=self.nontrivial_extra,
            classes=dict(self.classes),
            samples=self.samples,
            fails=list(self.fails.values()),
            excluded=dict(self.excluded),
            stats=self.stats,
            harness_errors=self.harness_errors,
            budget_exhausted=self.budget_exhausted,
        )


# --------------------------------------------------------------------------- running cases


def run_case_guarded(part: Part, case: dict, col: Optional[Collector]) -> CaseResult:
    """Run one case.  Exceptions raised *inside the library* that escaped the oracle are
    violations of the 'does not raise' kind; exceptions without a library frame are harness
    errors."""
    try:
        res = part.run(case)
    except HarnessError:
        raise
    except (KeyboardInterrupt, SystemExit):
        raise
    except BaseException as e:  # noqa: BLE001
        fr = lib_frame(e.__traceback__)
        if fr is None:
            raise HarnessError(
                f"part {part.name}: {type(e).__name__}: {e}\ncase={jdump(case)[:2000]}\n{traceback.format_exc()}"
            ) from e
        res = CaseResult()
        res.fail(f"{part.name}.crash:{type(e).__name__}:{fr}", f"{type(e).__name__}: {e}")
    if col is not None:
        col.record(case, res)
    return res


class _Alarm(BaseException):
    pass


def _shrink(check: Check, part: Part, ctx: Ctx, bucket: str, start_case: dict, seconds: float) -> dict:
    """Hypothesis-shrink a failing case of `bucket`; returns the smallest failing case seen."""
    import hypothesis
    from hypothesis import HealthCheck, Phase, given, settings

    best = dict(case=start_case, size=len(jdump(start_case)))

    def on_alarm(signum, frame):
        raise _Alarm()

    @hypothesis.seed(ctx.seed * 1000 + ctx.shard)
    @settings(
        max_examples=max(50, part.budget.get(ctx.tier, 100) // max(1, ctx.nshards)),
        database=None,
        deadline=None,
        derandomize=False,
        report_multiple_bugs=False,
        suppress_health_check=list(HealthCheck),
        phases=[Phase.generate, Phase.shrink],
    )
    @given(part.strategy(ctx.tier))
    def targeted(case):
        case = dict(case, part=part.name)
        try:
            res = part.run(case)
        except _Alarm:
            raise
        except BaseException as e:  # noqa: BLE001
            fr = lib_frame(e.__traceback__)
            if fr is None:
                return
            res = CaseResult()
            res.fail(f"{part.name}.crash:{type(e).__name__}:{fr}", str(e))
        if any(f.bucket == bucket for f in res.fails):
            size = len(jdump(case))
            if size <= best["size"]:
                best.update(case=case, size=size)
            raise AssertionError(bucket)

    old = signal.signal(signal.SIGALRM, on_alarm)
    signal.alarm(max(1, int(seconds)))
    try:
        targeted()
    except _Alarm:
        pass
    except BaseException:  # the expected AssertionError (shrunk), or hypothesis errors
        pass
    finally:
        signal.alarm(0)
        signal.signal(signal.SIGALRM, old)
    return best["case"]


def run_shard(check: Check, ctx: Ctx, only_parts: Optional[List[str]] = None) -> dict:
    known = load_known()
    col = Collector(check, known)
    last_path = os.path.join(ctx.workdir or env.work_dir(check.id), f"shard{ctx.shard}.last")
    col.spill = os.path.join(ctx.workdir or env.work_dir(check.id), f"shard{ctx.shard}.fails.jsonl")

    def note(case: dict) -> None:
        try:
            with open(last_path, "w") as f:
                f.write(jdump(case))
        except OSError:
            pass

    # regression tier: shrunk inputs of fixed defects, run by shard 0 first
    if ctx.shard == 0:
        rdir = os.path.join(VERIF_ROOT, "regress", check.id)
        if os.path.isdir(rdir):
            for fn in sorted(os.listdir(rdir)):
                if not fn.endswith(".json"):
                    continue
                with open(os.path.join(rdir, fn)) as f:
                    case = json.load(f)["case"]
                note(case)
                part = check.part(case["part"])
                res = run_case_guarded(part, case, col)
                col.classes["replayed_regressions"] += 1
                del res

    try:
        for part in check.parts:
            if only_parts and part.name not in only_parts:
                continue
            if part.strategy is not None:
                _run_hyp_part(check, part, ctx, col, note)
            else:
                for case in part.enumerate(ctx):
                    if ctx.expired():
                        col.budget_exhausted = True
                        break
                    case = dict(case, part=part.name)
                    note(case)
                    run_case_guarded(part, case, col)
    except HarnessError as e:
        col.harness_errors.append(str(e))
    except BaseException as e:  # noqa: BLE001
        col.harness_errors.append(f"{type(e).__name__}: {e}\n{traceback.format_exc()}")

    # shrink new buckets (hypothesis parts only), at most 3 per shard
    if not col.harness_errors:
        shrink_s = 25.0 if ctx.tier == "quick" else 120.0
        for rec in list(col.fails.values())[:3]:
            pname = rec["case"].get("part")
            try:
                part = check.part(pname)
            except KeyError:
                continue
            if part.strategy is None:
                continue
            try:
                rec["case"] = _shrink(check, part, ctx, rec["bucket"], rec["case"], shrink_s)
                rec["size"] = len(jdump(rec["case"]))
                rec["shrunk"] = True
            except BaseException as e:  # noqa: BLE001
                rec["shrink_error"] = f"{type(e).__name__}: {e}"
    try:
        os.remove(last_path)
    except OSError:
        pass
    return col.to_json()


def _run_hyp_part(check: Check, part: Part, ctx: Ctx, col: Collector, note) -> None:
    import hypothesis
    from hypothesis import HealthCheck, Phase, given, settings

    total = part.budget.get(ctx.tier, 0)
    if total <= 0:
        return
    n = total // ctx.nshards + (1 if ctx.shard < total % ctx.nshards else 0)
    if n <= 0:
        return
    pidx = [p.name for p in check.parts].index(part.name)

    @hypothesis.seed((ctx.seed * 1000 + ctx.shard) * 64 + pidx)
    @settings(
        max_examples=n,
        database=None,
        deadline=None,
        derandomize=False,
        report_multiple_bugs=False,
        suppress_health_check=list(HealthCheck),
        phases=[Phase.generate],
    )
    @given(part.strategy(ctx.tier))
    def collect(case):
        if ctx.expired():
            col.budget_exhausted = True
            return
        case = dict(case, part=part.name)
        note(case)
        run_case_guarded(part, case, col)

    collect()


# --------------------------------------------------------------------------- parent


def _spawn(check: Check, tier: str, seed: int, k: int, n: int, outdir: str, extra: List[str]) -> subprocess.Popen:
    out = os.path.join(outdir, f"shard{k}.json")
    if os.path.exists(out):
        os.remove(out)
    mod = "checks." + check.id.lower()
    cmd = [sys.executable, "-m", "vlib.launch", check.id, "--tier", tier, "--shard", f"{k}/{n}", "--out", out] + extra
    envv = dict(os.environ, VERIF_SEED=str(seed), PYTHONHASHSEED="0")
    log = open(os.path.join(outdir, f"shard{k}.log"), "w")
    return subprocess.Popen(cmd, cwd=VERIF_ROOT, env=envv, stdout=log, stderr=subprocess.STDOUT)


def _out_root() -> str:
    """evidence/ and replays/ describe /repo; runs against a scratch copy (VERIF_REPO) write elsewhere"""
    if os.environ.get("VERIF_REPO") and os.path.abspath(os.environ["VERIF_REPO"]) != "/repo":
        return os.path.join(VERIF_ROOT, ".work", "scratch-out")
    return VERIF_ROOT


def write_replay(check_id: str, rec: dict, seed: int, tier: str) -> str:
    d = os.path.join(_out_root(), "replays", check_id)
    os.makedirs(d, exist_ok=True)
    sha = hashlib.sha1(rec["bucket"].encode()).hexdigest()[:12]
    path = os.path.join(d, f"{sha}.json")
    with open(path, "w") as f:
        json.dump(
            dict(property=check_id, bucket=rec["bucket"], message=rec["msg"], case=rec["case"], seed=seed, tier=tier,
                 occurrences=rec.get("count", 1), shrunk=rec.get("shrunk", False)),
            f, indent=1, sort_keys=True, default=_jdefault,
        )
    return os.path.relpath(path, VERIF_ROOT)


def write_evidence(check: Check, tier: str, seed: int, agg: dict, wall: float, violations: int) -> None:
    exhaustive = all(p.exhaustive.get(tier, False) for p in check.parts if p.enumerate is not None) and any(
        p.exhaustive.get(tier, False) for p in check.parts
    )
    cov = dict(
        evaluations=int(agg["evaluations"]),
        distinct_nontrivial=int(agg["distinct_nontrivial"]),
        rule=check.rule,
        samples=agg["samples"][:8],
        cases=int(agg["cases"]),
        classes=dict(sorted(agg["classes"].items())),
        excluded=agg["excluded"],
        observed=agg["stats"],
        shards=agg["shards"],
        budget_exhausted=bool(agg["budget_exhausted"]),
        exhaustive=bool(exhaustive and not agg["budget_exhausted"]),
        exhaustive_parts=[p.name for p in check.parts if p.exhaustive.get(tier, False)],
        known_findings_hit=agg.get("known_hit", []),
        violation_buckets=agg.get("violation_buckets", []),
    )
    ev = dict(
        property_id=check.id,
        tier=tier,
        seed=seed,
        level=check.level,
        coverage=cov,
        assumptions=check.assumptions,
        wall_s=round(wall, 2),
        violations=violations,
    )
    d = os.path.join(_out_root(), "evidence")
    os.makedirs(d, exist_ok=True)
    tmp = os.path.join(d, f".{check.id}.json.tmp")
    with open(tmp, "w") as f:
        json.dump(ev, f, indent=1, sort_keys=True, default=_jdefault)
    os.replace(tmp, os.path.join(d, f"{check.id}.json"))


def parent(check: Check, tier: str, args) -> int:
    t0 = time.time()
    seed = env.SEED
    known = load_known()
    if check.selftest is not None:
        try:
            check.selftest()
        except BaseException as e:  # noqa: BLE001
            print(f"HARNESS-ERROR: {check.id} oracle self-test failed: {type(e).__name__}: {e}")
            traceback.print_exc()
            return 2
    n = args.shards or check.shards.get(tier, 8)
    n = max(1, min(n, (os.cpu_count() or 4)))
    outdir = os.path.join(env.work_dir(check.id), f"run{os.getpid()}")
    os.makedirs(outdir, exist_ok=True)
    extra: List[str] = []
    if args.budget_scale != 1.0:
        extra += ["--budget-scale", str(args.budget_scale)]
    if args.parts:
        extra += ["--parts", args.parts]
    procs = [(k, _spawn(check, tier, seed, k, n, outdir, extra)) for k in range(n)]
    hard = check.time_budget.get(tier, 600.0) * args.budget_scale_time + 600.0
    harness: List[str] = []
    results: List[dict] = []
    for k, p in procs:
        remaining = max(1.0, t0 + hard - time.time())
        try:
            rc = p.wait(timeout=remaining)
        except subprocess.TimeoutExpired:
            p.kill()
            p.wait()
            harness.append(f"shard {k} exceeded the hard time limit ({hard:.0f}s) and was killed")
            continue
        out = os.path.join(outdir, f"shard{k}.json")
        if rc != 0 or not os.path.exists(out):
            last = ""
            lp = os.path.join(outdir, f"shard{k}.last")
            if os.path.exists(lp):
                with open(lp) as f:
                    last = f.read()[:1500]
            tail = ""
            try:
                with open(os.path.join(outdir, f"shard{k}.log")) as f:
                    tail = f.read()[-1500:]
            except OSError:
                pass
            harness.append(f"shard {k} exited with {rc}; last case: {last}\n{tail}")
            sp = os.path.join(outdir, f"shard{k}.fails.jsonl")
            if os.path.exists(sp):  # violations the shard had already recorded before it died
                recs = []
                with open(sp) as f:
                    for line in f:
                        try:
                            recs.append(json.loads(line))
                        except ValueError:
                            pass
                if recs:
                    results.append(dict(evaluations=0, cases=0, nontrivial=[], nontrivial_extra=0, classes={}, samples=[], fails=recs,
                                        excluded={}, stats={}, harness_errors=[], budget_exhausted=False))
            continue
        with open(out) as f:
            results.append(json.load(f))

    agg = dict(evaluations=0, cases=0, classes=collections.Counter(), samples=[], excluded=collections.Counter(),
               stats={}, shards=n, budget_exhausted=False)
    nontriv: set = set()
    extra_n = 0
    fails: Dict[str, dict] = {}
    for r in results:
        agg["evaluations"] += r["evaluations"]
        agg["cases"] += r["cases"]
        agg["classes"].update(r["classes"])
        agg["excluded"].update(r["excluded"])
        agg["budget_exhausted"] |= r["budget_exhausted"]
        nontriv.update(r["nontrivial"])
        extra_n += r["nontrivial_extra"]
        for s in r["samples"]:
            if len(agg["samples"]) < 8:
                agg["samples"].append(s)
        for k_, v in r["stats"].items():
            if k_.endswith(".min"):
                agg["stats"][k_] = v if k_ not in agg["stats"] else min(agg["stats"][k_], v)
            else:
                agg["stats"][k_] = v if k_ not in agg["stats"] else max(agg["stats"][k_], v)
        harness.extend(r["harness_errors"])
        for rec in r["fails"]:
            cur = fails.get(rec["bucket"])
            if cur is None:
                fails[rec["bucket"]] = rec
            else:
                cur["count"] += rec["count"]
                if rec["size"] < cur["size"]:
                    cnt = cur["count"]
                    cur.update(rec)
                    cur["count"] = cnt
    agg["distinct_nontrivial"] = len(nontriv) + extra_n
    agg["excluded"] = dict(agg["excluded"])

    known_hit = []
    for b, cnt in sorted(agg["excluded"].items()):
        km = next(k for k in known if k.get("status") == "known" and k["bucket"] == b and k["property"] == check.id)
        print(f"KNOWN-FINDING: property={check.id} {km['what']} (bucket {b}, {cnt} generated cases excluded)")
        known_hit.append(b)
    agg["known_hit"] = known_hit

    violations = 0
    vb = []
    for b, rec in sorted(fails.items()):
        path = write_replay(check.id, rec, seed, tier)
        violations += 1
        vb.append(b)
        print(f"VIOLATION property={check.id} replay={path}")
        print(f"  bucket={b} occurrences={rec['count']}")
        print(f"  {rec['msg']}")
        print(f"  case={jdump(rec['case'])[:800]}")
    agg["violation_buckets"] = vb

    wall = time.time() - t0
    if harness:
        for h in harness[:5]:
            print("HARNESS-ERROR:", h[:3000])
    if agg["evaluations"] > 0 and not (harness and not results):
        try:
            write_evidence(check, tier, seed, agg, wall, violations)
        except BaseException as e:  # noqa: BLE001
            print("HARNESS-ERROR: could not write evidence:", e)
            return 2
    top = ", ".join(f"{k}={v}" for k, v in sorted(agg["classes"].items(), key=lambda kv: -kv[1])[:12])
    print(
        f"{check.id} {tier} seed={seed}: cases={agg['cases']} evaluations={agg['evaluations']} "
        f"distinct_nontrivial={agg['distinct_nontrivial']} violations={violations} "
        f"excluded={sum(agg['excluded'].values())} wall={wall:.1f}s"
        + (" [time budget exhausted: inconclusive for the remainder]" if agg["budget_exhausted"] else "")
    )
    print(f"  classes: {top}")
    if not harness:
        import shutil
        shutil.rmtree(outdir, ignore_errors=True)
    if violations:
        return 1
    if harness:
        return 2
    return 0


def replay(check: Check, path: str) -> int:
    with open(path) as f:
        data = json.load(f)
    case = data["case"]
    part = check.part(case["part"])
    known = load_known()
    try:
        res = run_case_guarded(part, case, None)
    except HarnessError as e:
        print("HARNESS-ERROR:", e)
        return 2
    bad = 0
    for f_ in res.fails:
        km = known_match(known, check.id, f_.bucket)
        if km is not None:
            print(f"KNOWN-FINDING: property={check.id} {km['what']} (bucket {f_.bucket})")
            continue
        bad += 1
        print(f"VIOLATION property={check.id} replay={path}")
        print(f"  bucket={f_.bucket}\n  {f_.msg}")
    if not bad:
        print(f"{check.id} replay {path}: case passes ({len(res.fails)} known-finding hits)")
    return 1 if bad else 0


def main(check: Check) -> None:
    ap = argparse.ArgumentParser()
    ap.add_argument("--tier", default=os.environ.get("VERIF_TIER") or "quick", choices=["quick", "thorough"])
    ap.add_argument("--shard", default=None)
    ap.add_argument("--out", default=None)
    ap.add_argument("--replay", default=None)
    ap.add_argument("--shards", type=int, default=int(os.environ.get("VERIF_SHARDS", "0") or 0))
    ap.add_argument("--budget-scale", type=float, default=float(os.environ.get("VERIF_BUDGET_SCALE", "1") or 1))
    ap.add_argument("--parts", default=None, help="comma separated subset of parts (debugging)")
    args = ap.parse_args()
    args.budget_scale_time = max(1.0, args.budget_scale)
    if args.budget_scale != 1.0:
        for p in check.parts:
            p.budget = {k: max(1, int(v * args.budget_scale)) for k, v in p.budget.items()}
    if args.replay:
        sys.exit(replay(check, args.replay))
    if args.shard:
        k, n = (int(v) for v in args.shard.split("/"))
        ctx = Ctx(tier=args.tier, seed=env.SEED, shard=k, nshards=n,
                  deadline=time.time() + check.time_budget.get(args.tier, 600.0) * args.budget_scale_time,
                  check_id=check.id, workdir=os.path.dirname(os.path.abspath(args.out)))
        res = run_shard(check, ctx, args.parts.split(",") if args.parts else None)
        with open(args.out, "w") as f:
            json.dump(res, f, default=_jdefault)
        sys.stdout.flush()
        os._exit(0)  # skip interpreter teardown (torch/dynamo threads)
    sys.exit(parent(check, args.tier, args))
