"""python -m vlib.launch <ID> [args]: imports checks.<id> and runs it; any failure to get as far as
the runner's own exit code is a harness error (exit 2), never a violation (exit 1)."""
import importlib
import sys
import traceback


def _main():
    cid = sys.argv.pop(1)
    try:
        from vlib import runner
        mod = importlib.import_module("checks." + cid.lower())
        check = mod.CHECK
    except SystemExit:
        raise
    except BaseException:  # noqa: BLE001
        traceback.print_exc()
        print(f"HARNESS-ERROR: cannot load check {cid}")
        sys.exit(2)
    try:
        runner.main(check)
    except SystemExit:
        raise
    except BaseException:  # noqa: BLE001
        traceback.print_exc()
        print(f"HARNESS-ERROR: runner crashed for {cid}")
        sys.exit(2)


_main()
