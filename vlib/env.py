"""Environment pinning shared by every check.

Importing this module
  * puts the repository under test (``/repo`` or ``$VERIF_REPO``) first on ``sys.path``,
  * imports ``unit_scaling`` and refuses to continue (exit 2) if it did not come from there,
  * pins torch to one intra-op thread (parallelism comes from shards),
  * silences warnings that would otherwise flood the logs.
"""
from __future__ import annotations

import os
import sys
import warnings

VERIF_ROOT = os.path.dirname(os.path.dirname(os.path.abspath(__file__)))
REPO = os.path.abspath(os.environ.get("VERIF_REPO", "/repo"))

os.environ.setdefault("PYTHONHASHSEED", "0")
os.environ.setdefault("OMP_NUM_THREADS", "1")
os.environ.setdefault("MKL_NUM_THREADS", "1")
os.environ.setdefault("UNIT_SCALING_VERIF", "1")
os.environ.setdefault("TORCHINDUCTOR_CACHE_DIR", os.path.join(VERIF_ROOT, ".cache", "inductor"))

if REPO in sys.path:
    sys.path.remove(REPO)
sys.path.insert(0, REPO)

warnings.filterwarnings("ignore")

import logging  # noqa: E402

logging.disable(logging.WARNING)

import torch  # noqa: E402

torch.set_num_threads(1)
try:
    torch.set_num_interop_threads(1)
except RuntimeError:
    pass

import unit_scaling  # noqa: E402

_f = os.path.abspath(unit_scaling.__file__)
if not _f.startswith(REPO + os.sep):
    sys.stderr.write(f"HARNESS-ERROR: unit_scaling imported from {_f}, expected under {REPO}\n")
    sys.exit(2)

SEED = int(os.environ.get("VERIF_SEED", "1") or "1")


def work_dir(check_id: str) -> str:
    d = os.path.join(VERIF_ROOT, ".work", check_id)
    os.makedirs(d, exist_ok=True)
    return d
