"""Independent capture of what flows through an FX graph: every node's output at production time and the
total gradient that reaches it (Tensor.register_hook), used by C18 / C19.  Nothing here calls the library's
tracking code; the graph is obtained by handing a harness backend to the public apply_transform."""
from __future__ import annotations

import math
from typing import Any, Dict

import numpy as np
import torch
from torch.fx import Interpreter

from unit_scaling.transforms.utils import apply_transform


class _Tap(torch.autograd.Function):
    """identity with its own autograd node: hands on a copy of the value (so that an in-place consumer - relu_, += - does not touch
    the producer's tensor, and an op that returns its input object itself still gets a separate edge) and records the gradient that
    arrives from this node's consumers"""

    @staticmethod
    def forward(ctx, x, rec):
        ctx.rec = rec
        return x.clone()

    @staticmethod
    def backward(ctx, g):
        ctx.rec["bwd"] = g.detach().clone()
        return g, None


class HookInterp(Interpreter):
    def __init__(self, gm, store):
        super().__init__(gm)
        self.store = store

    def run_node(self, n):
        out = super().run_node(n)
        if isinstance(out, torch.Tensor) and out.is_floating_point():
            rec = {"fwd": out.detach().clone(), "bwd": None, "requires_grad": out.requires_grad}
            self.store[n.name] = rec
            if out.requires_grad:
                out = _Tap.apply(out, rec)
        else:
            self.store[n.name] = None
        return out

    def __call__(self, *a, **k):
        return self.run(*a, **k)


def capture(module, inputs: Dict[str, torch.Tensor], backward: bool = True, call=None):
    """run `module` through apply_transform with a recording interpreter; returns (store, graphs, outputs)"""
    store: Dict[str, Any] = {}
    graphs = []

    def backend(gm, ex):
        graphs.append(gm)
        return HookInterp(gm, store)
    cm = apply_transform(module, backend)
    ins = {k: (v.clone().requires_grad_() if v.is_floating_point() else v) for k, v in inputs.items()}
    y = call(cm, ins) if call else cm(**ins)
    outs = y if isinstance(y, tuple) else (y,)
    if backward:
        loss = sum(o.sum() for o in outs if isinstance(o, torch.Tensor) and o.is_floating_point() and o.requires_grad)
        if isinstance(loss, torch.Tensor):
            loss.backward()
    return store, graphs, outs, ins


def stats(t: torch.Tensor) -> Dict[str, float]:
    a = t.double().numpy().ravel()
    return dict(mean_abs=float(np.abs(a).mean()), abs_mean=float(abs(a.mean())), std=float(a.std(ddof=1)) if a.size > 1 else float("nan"),
                abs_max=float(np.abs(a).max()), abs_min=float(np.abs(a).min()), numel=int(a.size))


def close(lv: float, v: float, rel=1e-4, abs_=1e-7, scale: float = 0.0) -> bool:
    """`scale`: magnitude of the quantities that were summed (|mean x| and std are differences of float32 sums of
    that size, so their absolute error is ~1e-6 x scale)"""
    if isinstance(v, float) and math.isnan(v):
        return isinstance(lv, float) and math.isnan(lv)
    return math.isclose(lv, v, rel_tol=rel, abs_tol=abs_ + 1e-5 * scale)
