"""Independent oracles for the simulated floating-point formats (C13, C14, C15).

Format (E, M): bias 2^(E-1), no inf/nan codes:
    emin = 1 - 2^(E-1), emax = 2^(E-1) - 1
    subnormals  m * 2^(emin-M)            m = 0 .. 2^M-1
    normals     (2^M + m) * 2^(e-M)       e = emin .. emax, m = 0 .. 2^M-1
Oracle A enumerates that set (exact: Python ints / Fractions, then float64 which holds every
value exactly).  Oracle B computes the two neighbours of |x| analytically in float64
(frexp / floor / ldexp are exact for float32 inputs).
"""
from __future__ import annotations

from fractions import Fraction
from functools import lru_cache
from typing import Tuple

import numpy as np


def emin_emax(E: int) -> Tuple[int, int]:
    return 1 - 2 ** (E - 1), 2 ** (E - 1) - 1


def fmt_max(E: int, M: int) -> float:
    emin, emax = emin_emax(E)
    return float(Fraction(2) ** emax * (2 - Fraction(1, 2**M)))


def fmt_min_normal(E: int) -> float:
    return float(Fraction(2) ** emin_emax(E)[0])


def fmt_min_subnormal(E: int, M: int) -> float:
    return float(Fraction(2) ** (emin_emax(E)[0] - M))


def n_values(E: int, M: int) -> int:
    """number of non-negative values"""
    return 2**M * (2**E)  # 2^M subnormals (incl 0) + (2^E - 1) binades * 2^M   (emax-emin+1 = 2^E - 1)


def value_set_fraction(E: int, M: int):
    """non-negative values as Fractions, ascending (use for small formats only)"""
    emin, emax = emin_emax(E)
    vals = [Fraction(m) * Fraction(2) ** (emin - M) for m in range(2**M)]
    for e in range(emin, emax + 1):
        vals += [Fraction(2**M + m) * Fraction(2) ** (e - M) for m in range(2**M)]
    return vals


@lru_cache(maxsize=64)
def value_set(E: int, M: int) -> np.ndarray:
    """non-negative values as float64, ascending; exact (every value is m * 2^k with m < 2^24)"""
    emin, emax = emin_emax(E)
    m = np.arange(2**M, dtype=np.float64)
    parts = [np.ldexp(m, emin - M)]
    for e in range(emin, emax + 1):
        parts.append(np.ldexp(2.0**M + m, e - M))
    v = np.concatenate(parts)
    assert v.shape[0] == (2**E) * 2**M and np.all(np.diff(v) > 0)
    return v


def neighbours_set(E: int, M: int, x: np.ndarray):
    """oracle A: (ax, lo, hi) of clamp(|x|) by binary search in the enumerated value set"""
    v = value_set(E, M)
    ax = np.minimum(np.abs(x.astype(np.float64)), v[-1])
    idx = np.searchsorted(v, ax, side="right") - 1  # v[idx] <= ax
    lo = v[idx]
    hi = np.where(lo == ax, lo, v[np.minimum(idx + 1, len(v) - 1)])
    return ax, lo, hi


def neighbours(E: int, M: int, x: np.ndarray):
    """oracle B: (ax, lo, hi, spacing) of clamp(|x|), analytic, float64"""
    x = x.astype(np.float64)
    emin, emax = emin_emax(E)
    vmax = 2.0**emax * (2 - 2.0**-M)
    ax = np.minimum(np.abs(x), vmax)
    _, ex = np.frexp(ax)  # ax = mant * 2^ex, mant in [0.5, 1)
    e = np.maximum(ex - 1, emin)
    e = np.where(ax == 0, emin, e)
    spacing = np.ldexp(1.0, (e - M).astype(np.int64))
    k = np.floor(ax / spacing)
    lo = k * spacing
    hi = np.where(lo == ax, lo, lo + spacing)
    return ax, lo, hi, spacing


def crosscheck(E: int, M: int, x: np.ndarray) -> None:
    """oracles A and B must agree (harness self-test)"""
    ax, lo, hi = neighbours_set(E, M, x)
    bx, lo2, hi2, _ = neighbours(E, M, x)
    if not (np.array_equal(ax, bx) and np.array_equal(lo, lo2) and np.array_equal(hi, hi2)):
        bad = np.where((lo != lo2) | (hi != hi2) | (ax != bx))[0][:3]
        raise AssertionError(f"format oracles disagree for E{E}M{M} at x={[float(x[i]).hex() for i in bad]}")


def selftest() -> None:
    # A (float64) == A (Fraction) on small formats, extremes == closed forms, A == B on probes
    rng = np.random.default_rng(12345)
    for E, M in [(2, 0), (2, 3), (3, 2), (4, 3), (5, 2), (5, 10), (8, 0), (8, 2)]:
        if n_values(E, M) <= 2**13:
            fr = value_set_fraction(E, M)
            v = value_set(E, M)
            assert len(fr) == len(v) and all(Fraction(float(a)) == b for a, b in zip(v, fr)), (E, M)
            assert Fraction(fmt_max(E, M)) == fr[-1] and Fraction(fmt_min_subnormal(E, M)) == fr[1]
            assert Fraction(fmt_min_normal(E)) == fr[2**M]
        bits = rng.integers(0, 2**31, size=20000, dtype=np.uint32)
        x = bits.view(np.float32)
        x = x[np.isfinite(x)]
        x = np.concatenate([x, value_set(E, M)[:: max(1, n_values(E, M) // 5000)].astype(np.float32)])
        crosscheck(E, M, x)


def structured_inputs(E: int, M: int, rng: np.random.Generator, n_rep: int, mant_per_exp: int) -> np.ndarray:
    """float32 probe inputs for a format: representable values, midpoints, their +-4 ulp float32
    neighbours, random mantissas for every float32 exponent, zeros, infinities (both signs).
    For E == 8 restricted to |x| < 2^126 (or inf)."""
    emin, emax = emin_emax(E)
    nv = n_values(E, M)
    v = value_set(E, M) if nv <= 2**16 else None
    if v is not None and nv <= n_rep:
        reps = v
    else:
        es = rng.integers(emin, emax + 1, size=n_rep)
        ms = rng.integers(0, 2**M, size=n_rep)
        reps = np.ldexp(2.0**M + ms, es - M)
        subs = np.ldexp(rng.integers(0, 2**M, size=max(16, n_rep // 4)).astype(np.float64), emin - M)
        edge = np.array([fmt_max(E, M), 2.0**emin, 2.0 ** (emin - M), 2.0**emin * (1 - 2.0**-M), 0.0,
                         np.ldexp(2.0 ** (M + 1) - 1, emax - M), np.ldexp(2.0 ** (M + 1) - 2, emax - M)])
        reps = np.concatenate([reps, subs, edge])
    _, ex = np.frexp(reps)
    sp = np.ldexp(1.0, np.maximum(ex - 1, emin) - M)
    mids = reps + 0.5 * sp
    base = np.concatenate([reps, mids, [fmt_max(E, M) * (1 + 2.0**-M / 2), fmt_max(E, M) * 1.5]]).astype(np.float32)
    allp = [base]
    b = base.copy()
    c = base.copy()
    for _ in range(4):
        b = np.nextafter(b, np.float32(np.inf))
        c = np.nextafter(c, np.float32(-np.inf))
        allp += [b.copy(), c.copy()]
    exps = np.repeat(np.arange(0, 255, dtype=np.uint32), mant_per_exp)
    man = rng.integers(0, 2**23, size=exps.shape, dtype=np.uint32)
    rnd = ((exps << np.uint32(23)) | man).view(np.float32)
    x = np.concatenate(allp + [rnd, np.array([np.inf, 0.0], dtype=np.float32)]).astype(np.float32)
    x = np.concatenate([x, -x])
    x = x[~np.isnan(x)]
    if E == 8:
        x = x[(np.abs(x) < 2.0**126) | np.isinf(x)]
    return x
