"""Program DSL shared by C15-C20.

A *program* is a JSON-able dict: sizes (B, S, h, V), a list of SSA statements over tensors of
shape [B, S, h] and a return spec.  It can be

  * rendered to Python source and exec'd into a fresh ``nn.Module`` subclass (``build_module``) -
    what the real TorchDynamo path of the library transforms sees (a distinct code object per
    program, so Dynamo's per-code recompile limit can never silently fall back to eager), and
  * evaluated directly by a harness-side interpreter (``evaluate``) under a *mode* object that
    decides what each operation means: ``Plain`` (the program as written), ``Unit`` (the
    User-Guide hand conversion, planned on the DSL's own data flow by ``unit_plan``), optionally
    wrapped with hand-written straight-through quantisation (``Quant``).

The interpreter never looks at an FX graph, so graph-analysis mistakes in the library cannot
cancel against the oracle.
"""
from __future__ import annotations

import hashlib
import json
import math
from typing import Any, Callable, Dict, List, Optional, Set, Tuple

import torch
import torch.nn.functional as F
from hypothesis import strategies as st
from torch import nn

import unit_scaling.functional as U

# ---------------------------------------------------------------------------------------------
# statement kinds
#   linear     x w [bias] spell in {pos, nobias, kwbias, allkw, module, none3}      -> F.linear / nn.Linear
#   ulinear    x w [bias] readout                                                    -> U.linear / U.linear_readout (C15 only)
#   sdpa       q k v mask in {None,bool,float} mask_spell in {pos,kw} causal dropout_kw unit mult
#   ew         fn x       fn in EW (tanh relu mulc neg gelu gelu_tanh gelu_mod silu softmax softmax_pos softmax_mod dropout0
#                                  dropout_eval layer_norm layer_norm_mod rms_norm)
#   add        a b|scalar spell in {plus, iadd, torch.add}
#   shape      kind x     kind in {flat, transpose2, rotate_half, slice_cat, mul1, index}
#   matmul     x w
#   embedding  table spell in {fun, module}   (uses the integer input `ids` or `ids2`)
#   conv1d     x w
#   param      p          (a free parameter tensor [h] usable as an add operand)
#   intop      kind x     kind in {argmax_mask, gt_where}  (C18/C19: integer / bool intermediates)
#   detach     x
# return spec: {"kind": "dot"} (sum(v * g)), {"kind": "cross_entropy"}, {"kind": "mse"}, {"kind": "tuple", "vars": [...]}
# ---------------------------------------------------------------------------------------------

EW_MAPPED = {"gelu", "gelu_tanh", "gelu_mod", "silu", "softmax", "softmax_pos", "softmax_mod", "dropout0", "dropout_eval", "dropout_mod", "layer_norm",
             "layer_norm_mod", "layer_norm_plain_mod", "rms_norm"}
EW_UNMAPPED = {"tanh", "relu", "mulc", "neg", "sin"}
ATTENTION_LIKE = {"softmax", "softmax_pos", "softmax_mod"}


KW_INPUT_FNS = ("gelu", "gelu_tanh", "silu", "softmax", "relu")


def prog_id(prog: dict) -> str:
    return hashlib.sha1(json.dumps(prog, sort_keys=True).encode()).hexdigest()[:10]


# ---------------------------------------------------------------------------------------------
# data-flow helpers


def stmt_inputs(st_: dict) -> List[str]:
    op = st_["op"]
    if op in ("linear", "ulinear", "ew", "shape", "matmul", "conv1d", "intop", "detach", "argmax", "seq", "mlp2"):
        return [st_["x"]]
    if op == "sdpa":
        return [st_["q"], st_["k"], st_["v"]]
    if op == "add":
        return [st_["a"]] + ([st_["b"]] if st_["b"] != "scalar" else [])
    if op == "mul":
        return [st_["a"], st_["b"]]
    if op in ("embedding", "param"):
        return []
    raise KeyError(op)


def ancestors(prog: dict) -> Dict[str, Set[str]]:
    anc: Dict[str, Set[str]] = {v: set() for v in prog["inputs"]}
    for s in prog["stmts"]:
        a: Set[str] = set()
        for i in stmt_inputs(s):
            a.add(i)
            a |= anc.get(i, set())
        anc[s["out"]] = a
    return anc


def producer(prog: dict) -> Dict[str, dict]:
    return {s["out"]: s for s in prog["stmts"]}


def unit_plan(prog: dict) -> dict:
    """The User-Guide recipe decided on the DSL's own data flow:
    residual[out] = (skip var, branch var, tau) for adds where one operand is computed from the other;
    constrained = vars that are (transitive) inputs of some residual add, or the residual add itself."""
    anc = ancestors(prog)
    prod = producer(prog)
    residual: Dict[str, Tuple[str, str, float]] = {}
    for s in prog["stmts"]:
        if s["op"] == "add" and s["b"] != "scalar":
            a, b = s["a"], s["b"]
            if a in anc[b] or b in anc[a]:
                skip, branch = (a, b) if a in anc[b] else (b, a)
                # does the branch (everything the branch output depends on, not going through the skip) contain attention/softmax?
                seen: Set[str] = set()
                stack = [branch]
                attn = False
                while stack:
                    v = stack.pop()
                    if v == skip or v in seen or v not in prod:
                        continue
                    seen.add(v)
                    p = prod[v]
                    if p["op"] == "sdpa" or (p["op"] == "ew" and p["fn"] in ATTENTION_LIKE):
                        attn = True
                    stack += stmt_inputs(p)
                residual[s["out"]] = (skip, branch, 0.01 if attn else 0.5)
    constrained: Set[str] = set()
    for out in residual:
        constrained.add(out)
        constrained |= anc[out]
    return dict(residual=residual, constrained=constrained, anc=anc)


# ---------------------------------------------------------------------------------------------
# rendering to a module


def _param_specs(prog: dict) -> List[Tuple[str, str, Any]]:
    """(attribute name, kind, shape/ctor) for every parameter or sub-module the program needs"""
    h, V = prog["h"], prog["V"]
    out = []
    for s in prog["stmts"]:
        i = s.get("i")
        op = s["op"]
        if op == "linear":
            if s["spell"] == "module":
                out.append((f"lin{i}", "module", ("Linear", h, h, s["bias"])))
            else:
                out.append((f"w{i}", "param", (h, h)))
                if s["bias"]:
                    out.append((f"b{i}", "param", (h,)))
        elif op == "ulinear":
            out.append((f"w{i}", "param", (h, h)))
            if s["bias"]:
                out.append((f"b{i}", "param", (h,)))
        elif op == "matmul":
            out.append((f"w{i}", "param", (h, h)))
        elif op == "seq":
            out.append((f"seq{i}", "module", ("Sequential", h, s["bias"])))
        elif op == "mlp2":
            out.append((f"wa{i}", "param", (s["mid"], h)))
            if s["bias"]:
                out.append((f"ba{i}", "param", (s["mid"],)))
            out.append((f"wb{i}", "param", (h, s["mid"])))
        elif op == "conv1d":
            out.append((f"cw{i}", "param", (h, h, 3)))
        elif op == "embedding":
            if s["spell"] == "module":
                out.append((f"emb{i}", "module", ("Embedding", V, h)))
            else:
                out.append((f"tab{i}", "param", (V, h)))
        elif op == "param":
            out.append((f"p{i}", "buffer" if s.get("buffer") else "param", (h,)))
        elif op == "ew":
            if s["fn"] == "layer_norm":
                out.append((f"lnw{i}", "param", (h,)))
                out.append((f"lnb{i}", "param", (h,)))
            elif s["fn"] == "layer_norm_mod":
                out.append((f"ln{i}", "module", ("LayerNorm", h)))
            elif s["fn"] == "rms_norm":
                out.append((f"rw{i}", "param", (h,)))
            elif s["fn"] == "gelu_mod":
                out.append((f"gelu{i}", "module", ("GELU", s.get("approximate", "none"))))
            elif s["fn"] == "softmax_mod":
                out.append((f"sm{i}", "module", ("Softmax",)))
            elif s["fn"] == "dropout_mod":
                out.append((f"drop{i}", "module", ("Dropout",)))
            elif s["fn"] == "layer_norm_plain_mod":
                out.append((f"lnp{i}", "module", ("LayerNormPlain", h)))
    if prog["ret"]["kind"] == "cross_entropy":
        out.append(("head", "module" if prog["ret"].get("module_head") else "param", ("Linear", h, V, True) if prog["ret"].get("module_head") else (V, h)))
    return out


def _expr(s: dict, prog: dict) -> List[str]:
    """python statements computing s['out']"""
    o = s["out"]
    op = s["op"]
    i = s.get("i")
    h = prog["h"]
    if op == "linear" and s.get("post") and not s.get("_inner"):
        # an in-place activation applied to the fresh linear output (nn.ReLU(inplace=True) after a layer); the pre-activation value
        # is not visible to the rest of the program
        return _expr(dict(s, _inner=True), prog) + [f"{o} = torch.relu_({o})"]
    if op == "linear":
        x = s["x"]
        sp = s["spell"]
        b = f"self.b{i}" if s["bias"] else "None"
        if sp == "module":
            return [f"{o} = self.lin{i}({x})"]
        if sp == "pos":
            return [f"{o} = F.linear({x}, self.w{i}, {b})"]
        if sp == "nobias":
            return [f"{o} = F.linear({x}, self.w{i})"]
        if sp == "kwbias":
            return [f"{o} = F.linear({x}, self.w{i}, bias={b})"]
        if sp == "allkw":
            return [f"{o} = F.linear(input={x}, weight=self.w{i}, bias={b})"]
        if sp == "kwweight":
            return [f"{o} = F.linear({x}, weight=self.w{i}.view({h}, {h}))"]
        raise KeyError(sp)
    if op == "ulinear":
        b = f"self.b{i}" if s["bias"] else "None"
        fn = "U.linear_readout" if s.get("readout") else "U.linear"
        c = "" if s.get("constraint", "default") == "default" else f", constraint={s['constraint']!r}"
        return [f"{o} = {fn}({s['x']}, self.w{i}, {b}{c})"]
    if op == "sdpa":
        fn = "U.scaled_dot_product_attention" if s["unit"] else "F.scaled_dot_product_attention"
        args = [s["q"], s["k"], s["v"]]
        kw = []
        if s.get("qkv_kw"):
            args = []
            kw = [f"query={s['q']}", f"key={s['k']}", f"value={s['v']}"]
        if s["mask"] is not None:
            m = "mask_b" if s["mask"] == "bool" else "mask_f"
            if s["mask_spell"] == "pos" and not s.get("qkv_kw"):
                args.append(m)
            else:
                kw.append(f"attn_mask={m}")
        if s.get("dropout_kw"):
            kw.append("dropout_p=0.0")
        if s["causal"]:
            kw.append("is_causal=True")
        if s["unit"] and s.get("mult", 1.0) != 1.0:
            kw.append(f"mult={s['mult']!r}")
        return [f"{o} = {fn}({', '.join(args + kw)})"]
    if op == "ew":
        fn = s["fn"]
        x = s["x"]
        table = {
            "tanh": f"torch.tanh({x})", "relu": f"F.relu({x})", "mulc": f"{x} * {s.get('c', 0.5)!r}", "neg": f"-{x}", "sin": f"torch.sin({x})",
            "gelu": f"F.gelu({x})", "gelu_tanh": f"F.gelu({x}, approximate='tanh')", "gelu_mod": f"self.gelu{i}({x})",
            "silu": f"F.silu({x})", "softmax": f"F.softmax({x}, dim=-1)", "softmax_pos": f"F.softmax({x}, -1)", "softmax_mod": f"self.sm{i}({x})",
            "dropout0": f"F.dropout({x}, 0.0)", "dropout_eval": f"F.dropout({x}, 0.3, False)",
            "layer_norm": f"F.layer_norm({x}, ({h},), self.lnw{i}, self.lnb{i})", "layer_norm_mod": f"self.ln{i}({x})",
            "rms_norm": f"F.rms_norm({x}, ({h},), self.rw{i}, 1e-5)",
            "scale_bwd": f"U.scale_bwd({x}, 0.5)", "scale_fwd": f"U.scale_fwd({x}, 1.5)",
            "dropout_mod": f"self.drop{i}({x})", "layer_norm_plain_mod": f"self.lnp{i}({x})",
        }
        if s.get("kw_input") and fn in KW_INPUT_FNS:
            # the tensor operand passed by keyword (F.gelu(input=...)): still a data dependency of the node
            return [f"{o} = " + table[fn].replace(f"({x}", f"(input={x}", 1)]
        return [f"{o} = {table[fn]}"]
    if op == "add":
        a = s["a"]
        b = repr(s.get("c", 1.0)) if s["b"] == "scalar" else s["b"]
        sp = s["spell"]
        if sp == "plus":
            return [f"{o} = {a} + {b}"]
        if sp == "torch.add":
            return [f"{o} = torch.add({a}, {b})"]
        if sp == "iadd":
            return [f"{o} = {a}", f"{o} += {b}"]
        raise KeyError(sp)
    if op == "mul":
        return [f"{o} = {s['a']} * {s['b']}" if s["spell"] == "star" else f"{o} = torch.mul({s['a']}, {s['b']})"]
    if op == "shape":
        x = s["x"]
        k = s["kind"]
        B, S = prog["B"], prog["S"]
        if k == "flat":
            return [f"{o} = {x}.reshape({B}, {S * h}).reshape({B}, {S}, {h})"]
        if k == "transpose2":
            return [f"{o} = {x}.transpose(1, 2).transpose(1, 2)"]
        if k == "rotate_half":
            return [f"{o} = torch.cat((-{x}[..., {h // 2}:], {x}[..., :{h // 2}]), -1)"]
        if k == "slice_cat":
            return [f"{o} = torch.cat([{x}[:, 1:], {x}[:, :1]], dim=1)"]
        if k == "stack_sum":
            return [f"{o} = torch.stack(({x}, {x} * 0.5)).sum(0)"]
        if k == "mul1":
            return [f"{o} = {x} * 1.0"]
        if k == "index":
            return [f"{o} = {x}[:, torch.arange({S - 1}, -1, -1)]"]
        if k == "view":
            return [f"{o} = {x}.view({B}, {S}, {h})"]
        raise KeyError(k)
    if op == "matmul":
        return [f"{o} = torch.matmul({s['x']}, self.w{i})"]
    if op == "seq":
        return [f"{o} = self.seq{i}({s['x']})"]
    if op == "mlp2":
        ba = f"self.ba{i}" if s["bias"] else "None"
        if s["unit"]:
            cons = s.get("constraint", "default")
            c1 = "" if cons == "default" else (f", {cons!r}" if s.get("cspell") == "pos" else f", constraint={cons!r}")
            return [f"{o} = U.linear(U.linear({s['x']}, self.wa{i}, {ba}{c1}), self.wb{i}, None{c1})"]
        return [f"{o} = F.linear(F.linear({s['x']}, self.wa{i}, {ba}), self.wb{i})"]
    if op == "conv1d":
        return [f"{o} = F.conv1d({s['x']}.transpose(1, 2), self.cw{i}, None, 1, 1).transpose(1, 2)"]
    if op == "embedding":
        ids = s.get("ids", "ids")
        if s["spell"] == "module":
            return [f"{o} = self.emb{i}({ids})"]
        return [f"{o} = F.embedding({ids}, self.tab{i})"]
    if op == "param":
        return [f"{o} = self.p{i}"]
    if op == "intop":
        x = s["x"]
        if s["kind"] == "argmax_mask":
            return [f"{o} = {x} * ({x}.argmax(-1).unsqueeze(-1) > 0)"]
        if s["kind"] == "gt_where":
            return [f"{o} = torch.where({x} > 0, {x}, {x} * 0.1)"]
        if s["kind"] == "gt_other":
            # a float tensor (the threshold) whose ONLY consumer is a bool node with two float-tensor inputs
            return [f"thr_{o} = {x}.abs().mean(-1, keepdim=True)", f"{o} = torch.where({x} > thr_{o}, {x}, {x} * 0.1)"]
        if s["kind"] == "vote":
            # an integer side computation over two float tensors that feeds nothing float: index tensors stacked and compared
            return [f"{o} = {x} * (torch.stack([{x}.argmax(-1), torch.tanh({x}).argmin(-1)]).sum(0).unsqueeze(-1) >= 0)"]
        raise KeyError(s["kind"])
    if op == "detach":
        return [f"{o} = {s['x']}.detach() + 0.0 * {s['x']}" if s.get("keep_grad") else f"{o} = {s['x']}.detach()"]
    if op == "argmax":
        return [f"{o} = {s['x']}.argmax(-1)"]
    raise KeyError(op)


def forward_args(prog: dict) -> List[str]:
    return list(prog["inputs"]) + (["g"] if prog["ret"]["kind"] == "dot" else []) + \
        (["tgt"] if prog["ret"]["kind"] in ("cross_entropy", "mse") else []) + \
        (["mask_b"] if any(s["op"] == "sdpa" and s["mask"] == "bool" for s in prog["stmts"]) else []) + \
        (["mask_f"] if any(s["op"] == "sdpa" and s["mask"] == "float" for s in prog["stmts"]) else [])


def render(prog: dict) -> str:
    name = "Prog_" + prog_id(prog)
    lines = [f"class {name}(nn.Module):", "    def __init__(self):", "        super().__init__()"]
    for attr, kind, spec in _param_specs(prog):
        if kind == "buffer":
            lines.append(f"        self.register_buffer({attr!r}, torch.randn({tuple(spec)!r}))")
        elif kind == "param":
            scale = 1.0 if len(spec) == 1 else 1.0 / math.sqrt(spec[-1] if len(spec) == 2 else spec[1] * spec[2])
            lines.append(f"        self.{attr} = nn.Parameter(torch.randn({tuple(spec)!r}) * {scale!r})")
        elif spec[0] == "Linear":
            lines.append(f"        self.{attr} = nn.Linear({spec[1]}, {spec[2]}, bias={spec[3]})")
        elif spec[0] == "Embedding":
            lines.append(f"        self.{attr} = nn.Embedding({spec[1]}, {spec[2]})")
        elif spec[0] == "LayerNorm":
            lines.append(f"        self.{attr} = nn.LayerNorm({spec[1]})")
        elif spec[0] == "GELU":
            lines.append(f"        self.{attr} = nn.GELU(approximate={spec[1]!r})")
        elif spec[0] == "Softmax":
            lines.append(f"        self.{attr} = nn.Softmax(dim=-1)")
        elif spec[0] == "Dropout":
            lines.append(f"        self.{attr} = nn.Dropout(0.0)")
        elif spec[0] == "LayerNormPlain":
            lines.append(f"        self.{attr} = nn.LayerNorm({spec[1]}, elementwise_affine=False)")
        elif spec[0] == "Sequential":
            lines.append(f"        self.{attr} = nn.Sequential(nn.Linear({spec[1]}, {spec[1]}, bias={spec[2]}), nn.Tanh(), nn.Linear({spec[1]}, {spec[1]}, bias={spec[2]}))")
    for s in prog["stmts"]:
        if s["op"] == "linear" and s.get("tie_to") is not None:
            # weight tying between two nn.Linear children (one Parameter object reachable under two names)
            lines.append(f"        self.lin{s['i']}.weight = self.lin{s['tie_to']}.weight")
    lines.append(f"    def forward(self, {', '.join(forward_args(prog))}):")
    for s in prog["stmts"]:
        for ln in _expr(s, prog):
            lines.append("        " + ln)
    r = prog["ret"]
    if r["kind"] == "dot":
        lines.append(f"        return ({r['var']} * g).sum()")
    elif r["kind"] == "cross_entropy":
        head = f"self.head({r['var']})" if r.get("module_head") else f"F.linear({r['var']}, self.head)"
        lines.append(f"        logits = {head}")
        lines.append("        return F.cross_entropy(logits.flatten(0, 1), tgt.flatten())")
    elif r["kind"] == "mse":
        lines.append(f"        return F.mse_loss({r['var']}, tgt)")
    elif r["kind"] == "tuple":
        lines.append(f"        return ({', '.join(r['vars'])},)")
    else:
        raise KeyError(r["kind"])
    return "\n".join(lines) + "\n"


def build_class(prog: dict):
    """the program as a fresh nn.Module subclass (one new code object per call)"""
    src = render(prog)
    ns: Dict[str, Any] = dict(torch=torch, nn=nn, F=F, U=U)
    code = compile(src, f"<prog {prog_id(prog)}>", "exec")
    exec(code, ns)
    cls = ns["Prog_" + prog_id(prog)]
    cls._verif_source = src
    return cls


def build_module(prog: dict, seed: int = 0, cls=None) -> nn.Module:
    """an instance with parameters drawn from `seed`; pass `cls` to create several instances of ONE class (same code object)"""
    cls = cls or build_class(prog)
    torch.manual_seed(seed)
    m = cls()
    m._verif_source = cls._verif_source
    return m


class _Star(nn.Module):
    """adapter: one tuple argument -> the program's positional arguments"""

    def __init__(self, inner):
        super().__init__()
        self.inner = inner

    def forward(self, args):
        return self.inner(*args)


_NN_ROOT_PREFIX = "0.inner."


def nn_root(m: nn.Module) -> nn.Module:
    """the program module behind a root whose class is defined in torch.nn (nn.Sequential): the transforms must reach through it"""
    root = nn.Sequential(_Star(m))
    root._verif_source = "# root: nn.Sequential(_Star(prog)), called with one tuple of the arguments below\n" + m._verif_source
    return root


def call(mod: nn.Module, prog: dict, inputs: Dict[str, torch.Tensor], nnroot: bool = False):
    """call a (possibly transformed) program module with a dict of inputs"""
    if nnroot:
        return mod(tuple(inputs[k] for k in forward_args(prog)))
    return mod(**inputs)


def named_tensors(module: nn.Module) -> Dict[str, torch.Tensor]:
    """parameters and buffers by name (what the reference interpreter reads)"""
    d = {**dict(module.named_parameters()), **dict(module.named_buffers())}
    if d and all(k.startswith(_NN_ROOT_PREFIX) for k in d):
        d = {k[len(_NN_ROOT_PREFIX):]: v for k, v in d.items()}
    return d


def make_inputs(prog: dict, seed: int, dtype=torch.float32) -> Dict[str, torch.Tensor]:
    g = torch.Generator().manual_seed(seed * 31 + 7)
    B, S, h, V = prog["B"], prog["S"], prog["h"], prog["V"]
    out: Dict[str, torch.Tensor] = {}
    for name in forward_args(prog):
        if name in ("x", "x2"):
            t = torch.randn(B, S, h, generator=g, dtype=dtype)
            if prog.get("zeros_in_input") and name == "x":
                t = t * (torch.rand(B, S, h, generator=g) > 0.3)
            out[name] = t
        elif name in ("ids", "ids2"):
            out[name] = torch.randint(0, V, (B, S), generator=g)
        elif name == "g":
            out[name] = torch.randn(B, S, h, generator=g, dtype=dtype)
        elif name == "tgt":
            out[name] = torch.randint(0, V, (B, S), generator=g) if prog["ret"]["kind"] == "cross_entropy" else torch.randn(B, S, h, generator=g, dtype=dtype)
        elif name == "mask_b":
            m = torch.rand(S, S, generator=g) > 0.4
            m[:, 0] = True
            out[name] = m
        elif name == "mask_f":
            out[name] = torch.randn(S, S, generator=g, dtype=dtype)
    return out


# ---------------------------------------------------------------------------------------------
# interpreter


class Plain:
    """the program as written"""

    def linear(self, s, x, w, b):
        return F.linear(x, w, b)

    def ulinear(self, s, x, w, b):
        fn = U.linear_readout if s.get("readout") else U.linear
        kw = {} if s.get("constraint", "default") == "default" else dict(constraint=s["constraint"])
        return fn(x, w, b, **kw)

    def sdpa(self, s, q, k, v, mask):
        if s["unit"]:
            return U.scaled_dot_product_attention(q, k, v, attn_mask=mask, is_causal=s["causal"], mult=s.get("mult", 1.0))
        return F.scaled_dot_product_attention(q, k, v, attn_mask=mask, is_causal=s["causal"])

    def ew(self, s, x, P, h):
        fn = s["fn"]
        i = s.get("i")
        if fn == "tanh":
            return torch.tanh(x)
        if fn == "relu":
            return F.relu(x)
        if fn == "sin":
            return torch.sin(x)
        if fn == "mulc":
            return x * s.get("c", 0.5)
        if fn == "neg":
            return -x
        if fn in ("gelu", "gelu_mod"):
            return F.gelu(x, approximate=s.get("approximate", "none"))
        if fn == "gelu_tanh":
            return F.gelu(x, approximate="tanh")
        if fn == "silu":
            return F.silu(x)
        if fn in ATTENTION_LIKE:
            return F.softmax(x, dim=-1)
        if fn in ("dropout0", "dropout_eval", "dropout_mod"):
            return x
        if fn == "layer_norm_plain_mod":
            return F.layer_norm(x, (h,), None, None, 1e-5)
        if fn == "layer_norm":
            return F.layer_norm(x, (h,), P[f"lnw{i}"], P[f"lnb{i}"])
        if fn == "layer_norm_mod":
            return F.layer_norm(x, (h,), P[f"ln{i}.weight"], P[f"ln{i}.bias"], 1e-5)
        if fn == "rms_norm":
            return F.rms_norm(x, (h,), P[f"rw{i}"], 1e-5)
        if fn == "scale_bwd":
            return U.scale_bwd(x, 0.5)
        if fn == "scale_fwd":
            return U.scale_fwd(x, 1.5)
        raise KeyError(fn)

    def add(self, s, a, b):
        return a + b

    def matmul(self, s, x, w):
        return torch.matmul(x, w)

    def conv1d(self, s, x, w):
        return F.conv1d(x.transpose(1, 2), w, None, 1, 1).transpose(1, 2)

    def embedding(self, s, ids, w):
        return F.embedding(ids, w)

    def cross_entropy(self, logits, tgt):
        return F.cross_entropy(logits, tgt)

    def mse(self, x, tgt):
        return F.mse_loss(x, tgt)

    def head(self, x, w, b):
        return F.linear(x, w, b)

    # residual handling hooks (no-ops for Plain)
    def begin(self, prog):
        self.prog = prog

    def on_define(self, name, value, env):
        return value


class Unit(Plain):
    """the User-Guide hand conversion, planned on the DSL data flow (see unit_plan)"""

    def begin(self, prog):
        self.prog = prog
        self.plan = unit_plan(prog)
        self.skip_of: Dict[str, Tuple[str, float]] = {}   # skip var -> (add out, tau)
        for out, (skip, branch, tau) in self.plan["residual"].items():
            assert skip not in self.skip_of, "generator produced a skip tensor shared by two residual adds (not well-nested)"
            self.skip_of[skip] = (out, tau)
        self.skips: Dict[str, torch.Tensor] = {}

    def _c(self, s, default="to_output_scale"):
        """constraint keyword for a mapped op: its default when a residual add follows, None otherwise"""
        return {} if s["out"] in self.plan["constrained"] else dict(constraint=None)

    def on_define(self, name, value, env):
        # a skip tensor is split right where it is produced: the branch sees the `residual` half
        if name in self.skip_of and isinstance(value, torch.Tensor):
            out, tau = self.skip_of[name]
            residual, skip = U.residual_split(value, tau)
            self.skips[name] = skip
            return residual
        return value

    def linear(self, s, x, w, b):
        return U.linear(x, w, b, **self._c(s))

    def sdpa(self, s, q, k, v, mask):
        assert not s["unit"]
        return U.scaled_dot_product_attention(q, k, v, attn_mask=mask, is_causal=s["causal"])

    def ew(self, s, x, P, h):
        fn = s["fn"]
        i = s.get("i")
        if fn in ("gelu", "gelu_mod"):
            return U.gelu(x, approximate=s.get("approximate", "none"), **self._c(s))
        if fn == "gelu_tanh":
            return U.gelu(x, approximate="tanh", **self._c(s))
        if fn == "silu":
            return U.silu(x, **self._c(s))
        if fn in ATTENTION_LIKE:
            return U.softmax(x, dim=-1, **self._c(s))
        if fn == "dropout0":
            return U.dropout(x, 0.0)
        if fn == "dropout_eval":
            return U.dropout(x, 0.3, False)
        if fn == "dropout_mod":
            return U.dropout(x, 0.0, self.prog.get("_training", True), False)
        if fn == "layer_norm_plain_mod":
            return U.layer_norm(x, (h,), None, None, 1e-5)
        if fn == "layer_norm":
            return U.layer_norm(x, (h,), P[f"lnw{i}"], P[f"lnb{i}"])
        if fn == "layer_norm_mod":
            return U.layer_norm(x, (h,), P[f"ln{i}.weight"], P[f"ln{i}.bias"], 1e-5)
        if fn == "rms_norm":
            return U.rms_norm(x, (h,), P[f"rw{i}"], 1e-5)
        return super().ew(s, x, P, h)

    def add(self, s, a, b):
        out = s["out"]
        if out in self.plan["residual"]:
            skip, branch, tau = self.plan["residual"][out]
            br = a if s["b"] == skip or (s["a"] != skip) else b
            br = b if s["a"] == skip else a
            return U.residual_add(br, self.skips[skip], tau)
        if not isinstance(b, torch.Tensor) or not isinstance(a, torch.Tensor):
            return a + b
        return U.add(a, b, constraint=None)

    def matmul(self, s, x, w):
        return U.matmul(x, w, **self._c(s))

    def conv1d(self, s, x, w):
        return U.conv1d(x.transpose(1, 2), w, None, 1, 1, **self._c(s)).transpose(1, 2)

    def embedding(self, s, ids, w):
        return U.embedding(ids, w)

    def cross_entropy(self, logits, tgt):
        return U.cross_entropy(logits, tgt)

    def mse(self, x, tgt):
        return U.mse_loss(x, tgt)

    def head(self, x, w, b):
        return U.linear(x, w, b, constraint=None)


class _STQ(torch.autograd.Function):
    """forward: quantise; backward: identity (straight-through), written by hand"""

    @staticmethod
    def forward(ctx, x, fmt):
        return fmt.quantise(x)

    @staticmethod
    def backward(ctx, g):
        return g, None


class _GQ(torch.autograd.Function):
    """forward: identity; backward: quantise the gradient"""

    @staticmethod
    def forward(ctx, x, fmt):
        ctx.fmt = fmt
        return x.view_as(x)

    @staticmethod
    def backward(ctx, g):
        return ctx.fmt.quantise(g), None


def quantised(base_cls, fwd, bwd):
    """mode = base semantics + straight-through quantisation at every linear / attention"""

    class Quant(base_cls):
        def _fq(self, t):
            return _STQ.apply(t, fwd)

        def _bq(self, t):
            return _GQ.apply(t, bwd)

        def linear(self, s, x, w, b):
            return self._bq(super().linear(s, self._fq(x), self._fq(w), b))

        def ulinear(self, s, x, w, b):
            return self._bq(super().ulinear(s, self._fq(x), self._fq(w), b))

        def sdpa(self, s, q, k, v, mask):
            return self._bq(super().sdpa(s, self._fq(q), self._fq(k), self._fq(v), mask))

        def head(self, x, w, b):
            return self._bq(super().head(self._fq(x), self._fq(w), b))

    return Quant()


def evaluate(prog: dict, P: Dict[str, torch.Tensor], inputs: Dict[str, torch.Tensor], mode: Plain, record: Optional[dict] = None):
    """run the program with harness-side semantics; P maps parameter names (as in module.named_parameters()) to tensors"""
    mode.begin(prog)
    h = prog["h"]
    env: Dict[str, Any] = {}
    for name in prog["inputs"]:
        env[name] = mode.on_define(name, inputs[name], env)
    for s in prog["stmts"]:
        op = s["op"]
        i = s.get("i")
        if op == "linear":
            if s["spell"] == "module":
                w, b = P[f"lin{s['tie_to'] if s.get('tie_to') is not None else i}.weight"], P.get(f"lin{i}.bias")
            elif s["spell"] == "kwweight":
                w, b = P[f"w{i}"].view(h, h), None
            else:
                w, b = P[f"w{i}"], (P[f"b{i}"] if s["bias"] else None)
            v = mode.linear(s, env[s["x"]], w, b)
            if s.get("post") == "relu_":
                v = torch.relu(v)
        elif op == "ulinear":
            v = mode.ulinear(s, env[s["x"]], P[f"w{i}"], P[f"b{i}"] if s["bias"] else None)
        elif op == "sdpa":
            mask = None if s["mask"] is None else inputs["mask_b" if s["mask"] == "bool" else "mask_f"]
            v = mode.sdpa(s, env[s["q"]], env[s["k"]], env[s["v"]], mask)
        elif op == "ew":
            v = mode.ew(s, env[s["x"]], P, h)
        elif op == "add":
            a = env[s["a"]]
            b = s.get("c", 1.0) if s["b"] == "scalar" else env[s["b"]]
            v = mode.add(s, a, b)
        elif op == "mul":
            v = env[s["a"]] * env[s["b"]]
        elif op == "shape":
            x = env[s["x"]]
            k = s["kind"]
            if k in ("flat", "transpose2", "view"):
                v = x.reshape(x.shape) * 1 if False else x.reshape(prog["B"], prog["S"] * h).reshape(prog["B"], prog["S"], h) if k == "flat" else \
                    (x.transpose(1, 2).transpose(1, 2) if k == "transpose2" else x.view(prog["B"], prog["S"], h))
            elif k == "rotate_half":
                v = torch.cat((-x[..., h // 2:], x[..., : h // 2]), -1)
            elif k == "slice_cat":
                v = torch.cat([x[:, 1:], x[:, :1]], dim=1)
            elif k == "stack_sum":
                v = torch.stack((x, x * 0.5)).sum(0)
            elif k == "mul1":
                v = x * 1.0
            elif k == "index":
                v = x[:, torch.arange(prog["S"] - 1, -1, -1)]
            else:
                raise KeyError(k)
        elif op == "matmul":
            v = mode.matmul(s, env[s["x"]], P[f"w{i}"])
        elif op == "mlp2":
            f_ = mode.ulinear if s["unit"] else mode.linear
            t = f_(s, env[s["x"]], P[f"wa{i}"], P[f"ba{i}"] if s["bias"] else None)
            v = f_(s, t, P[f"wb{i}"], None)
        elif op == "seq":
            t = mode.linear(s, env[s["x"]], P[f"seq{i}.0.weight"], P.get(f"seq{i}.0.bias"))
            v = mode.linear(s, torch.tanh(t), P[f"seq{i}.2.weight"], P.get(f"seq{i}.2.bias"))
        elif op == "conv1d":
            v = mode.conv1d(s, env[s["x"]], P[f"cw{i}"])
        elif op == "embedding":
            w = P[f"emb{i}.weight"] if s["spell"] == "module" else P[f"tab{i}"]
            v = mode.embedding(s, inputs[s.get("ids", "ids")], w)
        elif op == "param":
            v = P[f"p{i}"]
        elif op == "intop":
            x = env[s["x"]]
            if s["kind"] == "argmax_mask":
                v = x * (x.argmax(-1).unsqueeze(-1) > 0)
            elif s["kind"] == "gt_where":
                v = torch.where(x > 0, x, x * 0.1)
            elif s["kind"] == "gt_other":
                v = torch.where(x > x.abs().mean(-1, keepdim=True), x, x * 0.1)
            elif s["kind"] == "vote":
                v = x * (torch.stack([x.argmax(-1), torch.tanh(x).argmin(-1)]).sum(0).unsqueeze(-1) >= 0)
            else:
                raise KeyError(s["kind"])
        elif op == "detach":
            x = env[s["x"]]
            v = x.detach() + 0.0 * x if s.get("keep_grad") else x.detach()
        elif op == "argmax":
            v = env[s["x"]].argmax(-1)
        else:
            raise KeyError(op)
        if record is not None:
            record[s["out"]] = v
        env[s["out"]] = mode.on_define(s["out"], v, env)
    r = prog["ret"]
    if r["kind"] == "dot":
        return (env[r["var"]] * inputs["g"]).sum()
    if r["kind"] == "cross_entropy":
        if r.get("module_head"):
            logits = mode.head(env[r["var"]], P["head.weight"], P["head.bias"])
        else:
            logits = mode.head(env[r["var"]], P["head"], None)
        return mode.cross_entropy(logits.flatten(0, 1), inputs["tgt"].flatten())
    if r["kind"] == "mse":
        return mode.mse(env[r["var"]], inputs["tgt"])
    if r["kind"] == "tuple":
        return tuple(env[v] for v in r["vars"])
    raise KeyError(r["kind"])


# ---------------------------------------------------------------------------------------------
# program strategies


class _Builder:
    def __init__(self, draw, h, allow):
        self.draw = draw
        self.h = h
        self.allow = allow
        self.stmts: List[dict] = []
        self.n = 0
        self.i = 0

    def new(self) -> str:
        self.n += 1
        return f"v{self.n}"

    def idx(self) -> int:
        self.i += 1
        return self.i

    def emit(self, **s) -> str:
        s["out"] = self.new()
        self.stmts.append(s)
        return s["out"]

    # one shape-preserving op applied to `x`
    def unary(self, x: str, kinds: List[str]) -> str:
        d = self.draw
        k = d(st.sampled_from(kinds))
        if k == "linear":
            sp = d(st.sampled_from(self.allow["linear_spells"]))
            bias = False if sp in ("nobias", "kwweight") else d(st.booleans())
            post = "relu_" if ("inplace" in self.allow["extra"] and d(st.integers(0, 5)) == 0) else None
            extra_ = {"post": post} if post else {}
            earlier = [s_["i"] for s_ in self.stmts if s_["op"] == "linear" and s_["spell"] == "module" and s_.get("tie_to") is None]
            if sp == "module" and earlier and "tied" in self.allow["extra"] and d(st.sampled_from([False, True])):
                extra_["tie_to"] = d(st.sampled_from(earlier))
            return self.emit(op="linear", x=x, i=self.idx(), bias=bias, spell=sp, **extra_)
        if k == "ulinear":
            return self.emit(op="ulinear", x=x, i=self.idx(), bias=d(st.booleans()), readout=d(st.integers(0, 3)) == 0,
                             constraint=d(st.sampled_from(["default", None, "gmean"])), cspell=d(st.sampled_from(["kw", "pos"])))
        if k == "sdpa":
            mask = d(st.sampled_from([None, None, "bool", "float"]))
            causal = mask is None and d(st.booleans())
            unit = "usdpa" in self.allow["extra"] and d(st.booleans())
            q = self.unary(x, ["linear"]) if d(st.booleans()) else x
            qkv_kw = "kwtensors" in self.allow["extra"] and d(st.integers(0, 3)) == 0
            return self.emit(op="sdpa", q=q, k=x, v=x, mask=mask, mask_spell=d(st.sampled_from(self.allow["mask_spells"])), causal=causal,
                             dropout_kw=d(st.booleans()), unit=unit, mult=d(st.sampled_from([1.0, 1.0, 2.0])) if unit else 1.0,
                             **({"qkv_kw": True} if qkv_kw else {}))
        if k == "ew":
            fn = d(st.sampled_from(self.allow["ew"]))
            s = dict(op="ew", fn=fn, x=x, i=self.idx())
            if fn in KW_INPUT_FNS and "kwtensors" in self.allow["extra"] and d(st.integers(0, 3)) == 0:
                s["kw_input"] = True
            if fn == "mulc":
                s["c"] = d(st.sampled_from([0.5, 2.0, -1.5, 1.3, 0.77, 1.0001]))   # (ratios on both sides of the pruning tolerances 2^-2, 2^-8, 2^-16)
            if fn == "gelu_mod":
                s["approximate"] = d(st.sampled_from(["none", "tanh"]))
            return self.emit(**s)
        if k == "shape":
            kinds_ = [kk for kk in self.allow["shape"] if not (kk == "rotate_half" and self.h < 2)]
            return self.emit(op="shape", kind=d(st.sampled_from(kinds_)), x=x)
        if k == "matmul":
            return self.emit(op="matmul", x=x, i=self.idx())
        if k == "seq":
            return self.emit(op="seq", x=x, i=self.idx(), bias=d(st.booleans()))
        if k in ("mlp2", "umlp2"):
            # a pair of non-square linears h -> mid -> h (fan_in != fan_out: forward and backward scales differ)
            mid = d(st.sampled_from([1, 3, 2 * self.h, 5]))
            if mid == self.h:
                mid += 1
            return self.emit(op="mlp2", x=x, i=self.idx(), bias=d(st.booleans()), mid=mid, unit=(k == "umlp2"),
                             constraint=d(st.sampled_from(["default", None, "gmean"])) if k == "umlp2" else "default", cspell=d(st.sampled_from(["kw", "pos"])))
        if k == "conv1d":
            return self.emit(op="conv1d", x=x, i=self.idx())
        if k == "intop":
            return self.emit(op="intop", kind=d(st.sampled_from(["argmax_mask", "gt_where", "gt_other", "vote"])), x=x)
        if k == "gate":
            # two paths computed from the same tensor, multiplied (SwiGLU-like gating): a branch with more than one way back to x
            sub = [kk for kk in kinds if kk not in ("gate", "shape", "scalar_add", "intop")] or ["ew"]
            a = self.unary(x, sub)
            b = self.unary(x, sub) if d(st.booleans()) else x
            if d(st.booleans()):
                a, b = b, a
            return self.emit(op="mul", a=a, b=b, spell=d(st.sampled_from(["star", "torch.mul"])))
        if k == "scalar_add":
            return self.emit(op="add", a=x, b="scalar", c=d(st.sampled_from([1.0, -0.5, 2])), spell=d(st.sampled_from(["plus", "torch.add"])))
        raise KeyError(k)

    def chain(self, x: str, n: int, kinds: List[str]) -> str:
        for _ in range(n):
            x = self.unary(x, kinds)
        return x

    def residual(self, x: str, kinds: List[str], depth: int) -> str:
        d = self.draw
        n = d(st.integers(1, 3))
        br = x
        for _ in range(n):
            # (a nested block may not start the branch: its skip would be the outer skip, which is not well-nested)
            if depth > 0 and br != x and d(st.integers(0, 3)) == 0:
                br = self.residual(br, kinds, depth - 1)
            else:
                br = self.unary(br, kinds)
        spell = d(st.sampled_from(self.allow["add_spells"]))
        order = d(st.sampled_from(["skip+branch", "branch+skip"]))
        if spell == "iadd":
            # `t = branch; t += skip` - the in-place target must be a freshly computed tensor that no backward
            # formula needs (a linear output), otherwise the *original* program is not valid eager PyTorch
            if self.stmts and self.stmts[-1]["out"] == br and self.stmts[-1]["op"] == "linear" and not self.stmts[-1].get("post"):
                return self.emit(op="add", a=br, b=x, spell="iadd")
            spell = "plus"
        a, b = (x, br) if order == "skip+branch" else (br, x)
        return self.emit(op="add", a=a, b=b, spell=spell)

    def tower(self, x: str, kinds: List[str]) -> str:
        """a second, independent tower computed from the input x2 (with its own residual block), joined by a plain add:
        residual blocks that do not feed one another"""
        d = self.draw
        self.uses_x2 = True
        t = "x2"
        if d(st.booleans()):
            t = self.unary(t, kinds)
        t = self.residual(t, kinds, 0)
        if d(st.booleans()):
            t = self.unary(t, kinds)
        a, b = (x, t) if d(st.booleans()) else (t, x)
        return self.emit(op="add", a=a, b=b, spell=d(st.sampled_from(["plus", "torch.add"])))

    def plain_add(self, x: str, kinds: List[str]) -> str:
        """an addition whose operands are not computed from one another"""
        d = self.draw
        how = d(st.sampled_from(self.allow["plain_add"]))
        if how == "x2" and getattr(self, "uses_x2", False):
            how = "param"  # a second use of x2 would make the sum depend on x2 twice: a residual by definition
        spell = d(st.sampled_from(self.allow["add_spells"]))
        if how == "fork":
            a = self.unary(x, kinds)
            b = self.unary(x, kinds)
        elif how == "param":
            a = x
            b = self.emit(op="param", i=self.idx(), buffer=d(st.integers(0, 3)) == 0)
            if spell == "iadd":
                spell = "plus"
        else:  # second input
            a = x
            b = "x2"
            if spell == "iadd":
                spell = "plus"
            self.uses_x2 = True
        if spell == "iadd" and not (self.stmts and any(s_["out"] == a and s_["op"] == "linear" and not s_.get("post") for s_ in self.stmts)):
            spell = "plus"  # in-place only on a fresh linear output (no backward formula needs it)
        return self.emit(op="add", a=a, b=b, spell=spell)


ALLOW_UNIT = dict(
    linear_spells=["pos", "nobias", "kwbias", "allkw", "module", "module"],
    mask_spells=["kw"],
    ew=["tanh", "relu", "mulc", "gelu", "gelu_tanh", "gelu_mod", "silu", "softmax", "softmax_pos", "softmax_mod", "dropout0", "dropout_eval",
        "layer_norm", "layer_norm_mod", "layer_norm_plain_mod", "dropout_mod", "sin"],
    shape=["flat", "transpose2", "slice_cat", "rotate_half"],
    add_spells=["plus", "plus", "torch.add", "iadd"],
    plain_add=["fork", "param", "x2"],
    extra=["inplace", "kwtensors", "tied"],
)
KINDS_UNIT = ["linear", "linear", "seq", "mlp2", "ew", "ew", "ew", "sdpa", "shape", "matmul", "conv1d", "scalar_add", "gate"]


@st.composite
def unit_programs(draw, max_ops=16):
    """C16/C17/C18 programs over torch ops only: chains / DAGs with 0-4 well-nested residual blocks"""
    h = draw(st.sampled_from([2, 4, 6]))
    B, S, V = draw(st.integers(1, 3)), draw(st.integers(2, 5)), draw(st.integers(3, 9))
    b = _Builder(draw, h, ALLOW_UNIT)
    b.uses_x2 = False
    start = draw(st.sampled_from(["x", "x", "embedding", "tok+pos"]))
    inputs = ["x"]
    if start == "x":
        cur = "x"
    elif start == "embedding":
        inputs = ["ids"]
        cur = b.emit(op="embedding", i=b.idx(), spell=draw(st.sampled_from(["fun", "module"])), ids="ids")
    else:
        inputs = ["ids", "ids2"]
        t = b.emit(op="embedding", i=b.idx(), spell=draw(st.sampled_from(["fun", "module"])), ids="ids")
        p = b.emit(op="embedding", i=b.idx(), spell=draw(st.sampled_from(["fun", "module"])), ids="ids2")
        cur = b.emit(op="add", a=t, b=p, spell=draw(st.sampled_from(["plus", "torch.add"])))
    n_blocks = draw(st.integers(0, 4))
    n_steps = draw(st.integers(1, 6))
    plan = ["res"] * n_blocks + [draw(st.sampled_from(["op", "op", "plain_add"])) for _ in range(n_steps)] + \
        (["tower"] if draw(st.integers(0, 2)) == 0 else [])
    plan = draw(st.permutations(plan))
    for step in plan:
        if len(b.stmts) >= max_ops:
            break
        if step == "res":
            cur = b.residual(cur, KINDS_UNIT, depth=draw(st.sampled_from([0, 0, 1])))
        elif step == "tower":
            if b.uses_x2:
                continue
            cur = b.tower(cur, KINDS_UNIT)
        elif step == "op":
            cur = b.unary(cur, KINDS_UNIT)
        else:
            cur = b.plain_add(cur, KINDS_UNIT)
    if b.uses_x2:
        inputs = inputs + ["x2"]
    ret = draw(st.sampled_from([dict(kind="dot"), dict(kind="dot"), dict(kind="cross_entropy", module_head=draw(st.booleans())), dict(kind="mse")]))
    ret["var"] = cur
    return dict(h=h, B=B, S=S, V=V, inputs=inputs, stmts=b.stmts, ret=ret)


ALLOW_QUANT = dict(
    linear_spells=["pos", "nobias", "kwbias", "allkw", "module", "module"],
    mask_spells=["kw", "pos"],
    ew=["tanh", "relu", "mulc", "layer_norm", "layer_norm_mod", "gelu", "sin"],
    shape=["flat", "transpose2", "slice_cat", "rotate_half"],
    add_spells=["plus", "torch.add", "iadd"],
    plain_add=["fork", "param", "x2"],
    extra=["usdpa", "inplace", "kwtensors", "tied"],
)
KINDS_QUANT = ["linear", "linear", "linear", "seq", "mlp2", "umlp2", "ulinear", "sdpa", "sdpa", "ew", "ew", "shape", "gate"]


@st.composite
def quant_programs(draw, max_ops=12):
    """C15 programs: linear / attention (plain and unit-scaled spellings), elementwise, norms, adds, reshapes"""
    h = draw(st.sampled_from([2, 4, 8]))
    B, S, V = draw(st.integers(1, 3)), draw(st.integers(2, 5)), draw(st.integers(3, 9))
    b = _Builder(draw, h, ALLOW_QUANT)
    b.uses_x2 = False
    cur = "x"
    n = draw(st.integers(1, max_ops))
    for _ in range(n):
        if len(b.stmts) >= max_ops:
            break
        step = draw(st.sampled_from(["op", "op", "op", "res", "plain_add"]))
        if step == "op":
            cur = b.unary(cur, KINDS_QUANT)
        elif step == "res":
            cur = b.residual(cur, KINDS_QUANT, 0)
        else:
            cur = b.plain_add(cur, KINDS_QUANT)
    inputs = ["x"] + (["x2"] if b.uses_x2 else [])
    ret = dict(kind="dot", var=cur)
    return dict(h=h, B=B, S=S, V=V, inputs=inputs, stmts=b.stmts, ret=ret)


def grad_fanout(prog: dict) -> int:
    """largest number of gradient contributions any tensor receives (differentiable uses of one variable).
    With >= 3 contributions the order in which autograd accumulates them matters in floating point."""
    uses: Dict[str, int] = {}
    alias: Dict[str, str] = {}  # F.dropout with p = 0 / in eval mode returns its input object itself: same autograd tensor

    def root(v):
        while v in alias:
            v = alias[v]
        return v

    def use(v, k=1):
        v = root(v)
        uses[v] = uses.get(v, 0) + k
    for s in prog["stmts"]:
        op = s["op"]
        if op == "ew" and s["fn"] in ("dropout0", "dropout_eval"):
            alias[s["out"]] = s["x"]
            continue
        if op == "sdpa":
            for v in (s["q"], s["k"], s["v"]):
                use(v)
        elif op == "intop":
            use(s["x"], {"gt_where": 3, "gt_other": 4, "vote": 2}.get(s["kind"], 1))
        elif op == "shape" and s["kind"] in ("stack_sum", "rotate_half", "slice_cat"):
            use(s["x"], 2)
        elif op == "detach":
            use(s["x"], 1 if s.get("keep_grad") else 0)
        elif op == "argmax":
            pass
        else:
            for v in stmt_inputs(s):
                use(v)
    r = prog["ret"]
    for v in ([r["var"]] if "var" in r else r.get("vars", [])):
        use(v)
    return max(uses.values(), default=0)


def stats(prog: dict) -> Dict[str, int]:
    plan = unit_plan(prog)
    ops = [s["op"] for s in prog["stmts"]]
    return dict(n_ops=len(ops), n_residual=len(plan["residual"]), n_add=sum(o == "add" for o in ops),
                n_linear=sum(o in ("linear", "ulinear") for o in ops) + 2 * sum(o in ("seq", "mlp2") for o in ops), n_sdpa=sum(o == "sdpa" for o in ops))


ALLOW_TRACK = dict(
    linear_spells=["pos", "nobias", "kwbias", "module", "kwweight"],
    mask_spells=["kw", "pos"],
    ew=["tanh", "relu", "mulc", "neg", "gelu", "silu", "softmax", "layer_norm", "layer_norm_mod", "sin", "dropout0", "scale_bwd", "scale_fwd"],
    shape=["flat", "transpose2", "slice_cat", "rotate_half", "stack_sum", "mul1", "index", "view"],
    add_spells=["plus", "torch.add"],
    plain_add=["fork", "fork", "param", "x2"],
    extra=["inplace", "kwtensors", "tied"],
)
KINDS_TRACK = ["linear", "seq", "mlp2", "ew", "ew", "shape", "shape", "shape", "sdpa", "matmul", "intop", "scalar_add", "gate"]


@st.composite
def track_programs(draw, max_ops=14):
    """C18 / C19 programs: as the unit programs plus fan-out, integer / bool intermediates, list / tuple consumers
    (cat, stack, rotate-half), keyword tensor arguments, index tensors, views / negations / *1.0, multiple outputs"""
    h = draw(st.sampled_from([2, 4, 6]))
    B, S, V = draw(st.integers(1, 3)), draw(st.integers(2, 5)), draw(st.integers(3, 9))
    b = _Builder(draw, h, ALLOW_TRACK)
    b.uses_x2 = False
    start = draw(st.sampled_from(["x", "x", "x", "embedding"]))
    inputs = ["x"]
    cur = "x"
    if start == "embedding":
        inputs = ["ids"]
        cur = b.emit(op="embedding", i=b.idx(), spell=draw(st.sampled_from(["fun", "module"])), ids="ids")
    floats = [cur]
    n = draw(st.integers(1, max_ops))
    for _ in range(n):
        if len(b.stmts) >= max_ops:
            break
        step = draw(st.sampled_from(["op", "op", "op", "res", "plain_add"]))
        if step == "op":
            cur = b.unary(cur, KINDS_TRACK)
        elif step == "res":
            cur = b.residual(cur, KINDS_TRACK, 0)
        else:
            cur = b.plain_add(cur, KINDS_TRACK)
        floats.append(cur)
    if b.uses_x2:
        inputs = inputs + ["x2"]
    kind = draw(st.sampled_from(["dot", "tuple", "tuple", "mse"]))
    if kind == "tuple":
        vars_ = [cur]
        if draw(st.booleans()):
            vars_.append(b.emit(op="argmax", x=cur))
        if draw(st.booleans()):
            vars_.append(b.emit(op="detach", x=draw(st.sampled_from(floats)), keep_grad=draw(st.booleans())))
        earlier = [v for v in floats[:-1] if v not in inputs]  # (Dynamo passes returned *inputs* through outside the graph)
        if draw(st.booleans()) and earlier:
            vars_.append(draw(st.sampled_from(earlier)))
        ret = dict(kind="tuple", vars=vars_)
    else:
        ret = dict(kind=kind, var=cur)
    return dict(h=h, B=B, S=S, V=V, inputs=inputs, stmts=b.stmts, ret=ret, zeros_in_input=draw(st.booleans()))


# ---------------------------------------------------------------------------------------------
# hand-built FX graphs (the library backends can be called on them directly, without TorchDynamo)


def to_fx(prog: dict):
    """The program as a hand-built torch.fx.GraphModule over placeholders (inputs first, then every parameter / buffer the
    interpreter reads).  Returns (graph module, [placeholder keys]); a key is an input name or a named_tensors() key.
    Covers the vocabulary of `quant_programs`."""
    import operator

    from torch import fx

    g = fx.Graph()
    keys: List[str] = []
    ph: Dict[str, Any] = {}

    def P(key):
        if key not in ph:
            keys.append(key)
            ph[key] = g.placeholder(key.replace(".", "_"))
        return ph[key]
    for name in forward_args(prog):
        P(name)
    # parameters must be placeholders *before* the first call node: create them in program order up front
    h = prog["h"]
    env: Dict[str, Any] = {name: ph[name] for name in prog["inputs"]}
    plan: List[Tuple[dict, Any]] = []
    for s in prog["stmts"]:
        i = s.get("i")
        op = s["op"]
        if op == "linear":
            if s["spell"] == "module":
                P(f"lin{s['tie_to'] if s.get('tie_to') is not None else i}.weight")
                if s["bias"]:
                    P(f"lin{i}.bias")
            else:
                P(f"w{i}")
                if s["bias"]:
                    P(f"b{i}")
        elif op == "ulinear":
            P(f"w{i}")
            if s["bias"]:
                P(f"b{i}")
        elif op == "mlp2":
            P(f"wa{i}")
            if s["bias"]:
                P(f"ba{i}")
            P(f"wb{i}")
        elif op == "seq":
            for k_ in ("0", "2"):
                P(f"seq{i}.{k_}.weight")
                if s["bias"]:
                    P(f"seq{i}.{k_}.bias")
        elif op == "param":
            P(f"p{i}")
        elif op == "ew" and s["fn"] == "layer_norm":
            P(f"lnw{i}")
            P(f"lnb{i}")
        elif op == "ew" and s["fn"] == "layer_norm_mod":
            P(f"ln{i}.weight")
            P(f"ln{i}.bias")
    cf = g.call_function
    for s in prog["stmts"]:
        i = s.get("i")
        op = s["op"]
        o = s["out"]
        if op == "linear":
            x = env[s["x"]]
            if s["spell"] == "module":
                w, b = ph[f"lin{s['tie_to'] if s.get('tie_to') is not None else i}.weight"], ph.get(f"lin{i}.bias")
                env[o] = cf(F.linear, (x, w, b))
            else:
                w, b = ph[f"w{i}"], (ph[f"b{i}"] if s["bias"] else None)
                sp = s["spell"]
                if sp == "nobias":
                    env[o] = cf(F.linear, (x, w))
                elif sp == "kwbias":
                    env[o] = cf(F.linear, (x, w), {"bias": b})
                elif sp == "allkw":
                    env[o] = cf(F.linear, (), {"input": x, "weight": w, "bias": b})
                else:
                    env[o] = cf(F.linear, (x, w, b))
            if s.get("post") == "relu_":
                env[o] = cf(torch.relu_, (env[o],))
        elif op == "ulinear":
            fn = U.linear_readout if s.get("readout") else U.linear
            x, w, b = env[s["x"]], ph[f"w{i}"], (ph[f"b{i}"] if s["bias"] else None)
            cons = s.get("constraint", "default")
            if cons == "default":
                env[o] = cf(fn, (x, w, b))
            elif s.get("cspell", "kw") == "pos":
                env[o] = cf(fn, (x, w, b, cons))
            else:
                env[o] = cf(fn, (x, w, b), {"constraint": cons})
        elif op == "mlp2":
            x, wa, ba, wb = env[s["x"]], ph[f"wa{i}"], (ph[f"ba{i}"] if s["bias"] else None), ph[f"wb{i}"]
            if s["unit"]:
                cons = s.get("constraint", "default")
                if cons == "default":
                    env[o] = cf(U.linear, (cf(U.linear, (x, wa, ba)), wb, None))
                elif s.get("cspell") == "pos":
                    env[o] = cf(U.linear, (cf(U.linear, (x, wa, ba, cons)), wb, None, cons))
                else:
                    env[o] = cf(U.linear, (cf(U.linear, (x, wa, ba), {"constraint": cons}), wb, None), {"constraint": cons})
            else:
                env[o] = cf(F.linear, (cf(F.linear, (x, wa, ba)), wb))
        elif op == "seq":
            t = cf(F.linear, (env[s["x"]], ph[f"seq{i}.0.weight"], ph.get(f"seq{i}.0.bias")))
            t = cf(torch.tanh, (t,))
            env[o] = cf(F.linear, (t, ph[f"seq{i}.2.weight"], ph.get(f"seq{i}.2.bias")))
        elif op == "sdpa":
            fn = U.scaled_dot_product_attention if s["unit"] else F.scaled_dot_product_attention
            args = [env[s["q"]], env[s["k"]], env[s["v"]]]
            kw: Dict[str, Any] = {}
            if s["mask"] is not None:
                m_ = ph["mask_b" if s["mask"] == "bool" else "mask_f"]
                if s["mask_spell"] == "pos":
                    args.append(m_)
                else:
                    kw["attn_mask"] = m_
            if s.get("dropout_kw"):
                kw["dropout_p"] = 0.0
            if s["causal"]:
                kw["is_causal"] = True
            if s["unit"] and s.get("mult", 1.0) != 1.0:
                kw["mult"] = s["mult"]
            env[o] = cf(fn, tuple(args), kw)
        elif op == "ew":
            x = env[s["x"]]
            fnn = s["fn"]
            if fnn == "tanh":
                env[o] = cf(torch.tanh, (x,))
            elif fnn == "relu":
                env[o] = cf(F.relu, (x,))
            elif fnn == "sin":
                env[o] = cf(torch.sin, (x,))
            elif fnn == "mulc":
                env[o] = cf(operator.mul, (x, s.get("c", 0.5)))
            elif fnn == "neg":
                env[o] = cf(operator.neg, (x,))
            elif fnn == "gelu":
                env[o] = cf(F.gelu, (x,))
            elif fnn == "layer_norm":
                env[o] = cf(F.layer_norm, (x, (h,), ph[f"lnw{i}"], ph[f"lnb{i}"]))
            elif fnn == "layer_norm_mod":
                env[o] = cf(F.layer_norm, (x, (h,), ph[f"ln{i}.weight"], ph[f"ln{i}.bias"], 1e-5))
            else:
                raise KeyError(fnn)
        elif op == "add":
            a = env[s["a"]]
            b = s.get("c", 1.0) if s["b"] == "scalar" else env[s["b"]]
            env[o] = cf(torch.add if s["spell"] == "torch.add" else operator.add, (a, b))
        elif op == "mul":
            env[o] = cf(torch.mul if s["spell"] == "torch.mul" else operator.mul, (env[s["a"]], env[s["b"]]))
        elif op == "param":
            env[o] = ph[f"p{i}"]
        elif op == "shape":
            x = env[s["x"]]
            k = s["kind"]
            B, S = prog["B"], prog["S"]
            if k == "flat":
                t = g.call_method("reshape", (x, B, S * h))
                env[o] = g.call_method("reshape", (t, B, S, h))
            elif k == "transpose2":
                t = g.call_method("transpose", (x, 1, 2))
                env[o] = g.call_method("transpose", (t, 1, 2))
            elif k == "rotate_half":
                a_ = cf(operator.getitem, (x, (Ellipsis, slice(h // 2, None))))
                b_ = cf(operator.getitem, (x, (Ellipsis, slice(None, h // 2))))
                env[o] = cf(torch.cat, ((cf(operator.neg, (a_,)), b_), -1))
            elif k == "slice_cat":
                a_ = cf(operator.getitem, (x, (slice(None), slice(1, None))))
                b_ = cf(operator.getitem, (x, (slice(None), slice(None, 1))))
                env[o] = cf(torch.cat, ([a_, b_],), {"dim": 1})
            else:
                raise KeyError(k)
        else:
            raise KeyError(op)
    r = prog["ret"]
    assert r["kind"] == "dot"
    out = g.call_method("sum", (cf(operator.mul, (env[r["var"]], ph["g"])),))
    g.output(out)
    g.lint()
    return fx.GraphModule(nn.Module(), g), keys
