"""Scalar-fit probes shared by C01, C02, C03, C05 (and C08).

A *case* is a flat JSON-able dict describing one call of one unit_scaling.functional op:
op name, shapes, dtype, hyper-parameters, constraint, value profile and integer seeds.
``build(case, seed)`` turns it into (library fn, reference fn, tensors, roles).  The
reference table is written from the PyTorch documentation (DESIGN.md section 3).
"""
from __future__ import annotations

import math
from dataclasses import dataclass, field
from typing import Any, Callable, Dict, List, Optional, Tuple

import torch
import torch.nn.functional as F
from hypothesis import strategies as st

import unit_scaling.functional as U

D = torch.float64
DT = {"float64": torch.float64, "float32": torch.float32, "bfloat16": torch.bfloat16, "float16": torch.float16}

#                 fwd res, fwd eq,  ==1,     grad res, grad eq
TOL = {
    "float64": (1e-11, 1e-10, 1e-12, 1e-10, 1e-9),
    "float32": (2e-5, 1e-4, 1e-5, 2e-4, 1e-3),
    "float16": (4e-3, 1e-2, 8 * 2.0**-10, 2e-2, 5e-2),
    "bfloat16": (3e-2, 5e-2, 8 * 2.0**-7, 1e-1, 2e-1),
}
# rms_norm computes its denominator in float32 by design -> float32 tolerances at best
RMS_TOL = (1e-6, 1e-6, 1e-6, 1e-4, 1e-4)

BIN = [None, "", "gmean", "hmean", "amean", "to_output_scale", "to_grad_input_scale"]
TER = [None, "", "gmean", "hmean", "amean", "to_output_scale", "to_left_grad_scale", "to_right_grad_scale"]
OPS = ["gelu", "silu", "silu_glu", "softmax", "dropout", "matmul", "linear", "linear_readout", "conv1d",
       "layer_norm", "rms_norm", "add", "embedding", "sdpa", "cross_entropy", "mse_loss"]
ONE = {"cross_entropy", "mse_loss", "layer_norm", "rms_norm", "embedding"}
CONSTRAINED = {"gelu": BIN, "silu": BIN, "softmax": BIN, "linear": BIN, "linear_readout": BIN, "conv1d": BIN,
               "matmul": TER, "add": TER}
DEFAULT_CONSTRAINT = {"gelu": "to_output_scale", "silu": "to_output_scale", "softmax": "to_output_scale",
                      "linear": "to_output_scale", "linear_readout": None, "conv1d": "to_output_scale",
                      "matmul": "to_output_scale", "add": "to_output_scale"}

UNSUPPORTED = {
    "silu": [("inplace", True)],
    "dropout": [("inplace", True)],
    "add": [("alpha", 2), ("alpha", 0)],
    "embedding": [("scale_grad_by_freq", True), ("sparse", True)],
    "cross_entropy": [("weight", "ones"), ("size_average", True), ("size_average", False), ("reduce", True),
                      ("reduce", False), ("label_smoothing", 0.1), ("reduction", "none")],
    "mse_loss": [("size_average", True), ("size_average", False), ("reduce", True), ("reduce", False),
                 ("reduction", "none")],
}


# ------------------------------------------------------------------ tensors from seeds


def rt(shape, seed: int, profile: str = "normal", dtype=D, salt: int = 0) -> torch.Tensor:
    g = torch.Generator().manual_seed((int(seed) * 1000003 + salt * 7919 + (104729 if salt else 0)) % (2**31) if salt else int(seed) % (2**31))
    shape = tuple(shape)
    x = torch.randn(shape, generator=g, dtype=D)
    if profile == "big":
        x = x * 1e3
    elif profile == "small":
        x = x * 1e-3
    elif profile == "ints":
        x = torch.randint(-3, 4, shape, generator=g).to(D)
    elif profile == "sparse":
        x = x * (torch.rand(shape, generator=g) > 0.7)
    elif profile == "rows" and len(shape) >= 1 and shape[-1] > 1:
        # repeated rows: every leading index holds the same last-dim vector
        x = x.reshape(-1, shape[-1])[:1].expand(max(1, x.numel() // shape[-1]), shape[-1]).reshape(shape).clone()
    return x.to(dtype)


# ------------------------------------------------------------------ strategies

mults = st.one_of(st.sampled_from([0.25, 1.0, 4.0, 1 / 16, 16.0, 1, 2, 4]),
                  st.floats(math.log(1 / 16), math.log(16)).map(lambda v: round(math.exp(v), 6)))
batches = st.lists(st.integers(1, 4), min_size=0, max_size=3)
seeds = st.integers(0, 10**6)


@st.composite
def op_cases(draw, ops=None, dtypes=None, constraint=None, unsupported_rate=0.0, profiles=None):
    """flat descriptor of one functional call.  `constraint`: None -> draw any valid name;
    "none" -> force None; "default" -> leave default"""
    op = draw(st.sampled_from(ops or OPS))
    dtype = draw(st.sampled_from(dtypes or ["float64", "float64", "float64", "float32", "bfloat16", "float16"]))
    if op == "conv1d" and dtype == "float16":
        dtype = "float32"  # PyTorch's own CPU F.conv1d segfaults for some float16 configs (DESIGN 3)
    if profiles is None:
        profiles = ["normal", "normal", "big", "small", "ints", "sparse", "rows"] if dtype == "float64" else \
            ["normal", "normal", "ints", "sparse"]
    c: Dict[str, Any] = dict(op=op, dtype=dtype, prof=draw(st.sampled_from(profiles)))
    b = draw(batches)

    def cons(names):
        if constraint == "none":
            return None
        if constraint == "default":
            return "default"
        return draw(st.sampled_from(names + ["default"]))

    if op in ("gelu", "silu"):
        c.update(shape=b + [draw(st.integers(1, 12))], mult=draw(mults), constraint=cons(BIN))
        if op == "gelu":
            c["approximate"] = draw(st.sampled_from(["none", "tanh"]))
    elif op == "silu_glu":
        c.update(shape=b + [draw(st.integers(1, 12))], mult=draw(mults))
    elif op == "softmax":
        shape = b + [draw(st.integers(1, 12))]
        c.update(shape=shape, dim=draw(st.integers(-len(shape), len(shape) - 1)), mult=draw(mults), constraint=cons(BIN),
                 sm_dtype=draw(st.sampled_from([None, None, None, "float64", "float32"])))
    elif op == "dropout":
        c.update(shape=b + [draw(st.integers(2, 12))], p=draw(st.sampled_from([0.0, 0.1, 0.5, 0.9]) | st.floats(0.0, 0.9).map(lambda v: round(v, 4))),
                 training=draw(st.booleans()), rng=draw(st.integers(0, 1000)))
    elif op == "matmul":
        M, K, N = (draw(st.integers(1, 9)) for _ in range(3))
        kind = draw(st.sampled_from(["eq", "eq", "bcast", "none", "vec-right", "lbcast"]))
        lb = list(b) if kind in ("eq", "bcast") else []
        rb = list(b) if kind in ("eq", "lbcast") else []
        c.update(l=lb + [M, K], r=rb + [K, N], kind=kind, constraint=cons(TER))
    elif op in ("linear", "linear_readout"):
        fi, fo = draw(st.integers(1, 16)), draw(st.integers(1, 16))
        c.update(x=b + [fi], w=[fo, fi], bias=draw(st.booleans()), constraint=cons(BIN))
    elif op == "conv1d":
        g = draw(st.sampled_from([1, 1, 2, 3]))
        cin = g * draw(st.integers(1, 3)); cout = g * draw(st.integers(1, 3))
        k = draw(st.integers(1, 4)); s = draw(st.integers(1, 3)); d = draw(st.integers(1, 3)); p = draw(st.integers(0, 3))
        if draw(st.sampled_from(["general", "general", "general", "pointwise"])) == "pointwise":
            # the pointwise / all-default geometry (a linear layer in disguise) is a corner of its own
            g, k, s, d, p = 1, draw(st.sampled_from([1, 1, 3])), 1, 1, 0
            cin, cout = draw(st.sampled_from([(1, 4), (5, 2), (3, 6), (6, 1), (2, 3), (4, 4)]))
        L = d * (k - 1) + 1 + draw(st.integers(0, 12))
        bb = draw(st.sampled_from([[], [1], [2], [3]]))
        c.update(x=bb + [cin, L], w=[cout, cin // g, k], bias=draw(st.booleans()), stride=s, padding=p, dilation=d, groups=g,
                 constraint=cons(BIN))
    elif op in ("layer_norm", "rms_norm"):
        ns = [draw(st.integers(2, 6)) for _ in range(draw(st.integers(1, 2)))]
        c.update(x=b + ns, ns=ns, weight=draw(st.booleans()), bias=draw(st.booleans()),
                 eps=draw(st.sampled_from([0.0, 1e-8, 1e-5, 1e-5, 1e-2])))
    elif op == "add":
        full = b + [draw(st.integers(1, 6))]

        def sub():
            s_ = list(full)
            k_ = draw(st.integers(0, len(s_)))
            s_ = s_[k_:]
            return [1 if draw(st.integers(0, 9)) < 3 else v for v in s_]

        a = draw(st.sampled_from(["full", "full", "sub", "sub", "pyscalar", "mutual", "one"]))
        bb = draw(st.sampled_from(["full", "full", "sub", "sub", "pyscalar", "one"])) if a != "pyscalar" else "full"

        def one():  # a tensor with a single element: 0-dim or all-ones shape (the library has a dedicated branch for it)
            return [1] * draw(st.integers(0, len(full)))
        if a == "mutual":
            # both operands broadcast against each other; equal element counts included ((n,1)+(1,n), (n,1)+(n,), (a,1,c)+(1,a,c))
            n_ = draw(st.integers(2, 5))
            va, vb = draw(st.sampled_from([([n_, 1], [1, n_]), ([n_, 1], [n_]), ([n_, 1, 2], [1, n_, 2]), ([n_, 1], [1, n_ + 1]), ([1, n_, 1], [n_, 1, 3])]))
            c.update(a=va, b=vb, scalar=2.5, constraint=cons(TER))
        else:
            c.update(a=full if a == "full" else (sub() if a == "sub" else (one() if a == "one" else "scalar")),
                     b=full if bb == "full" else (sub() if bb == "sub" else (one() if bb == "one" else "scalar")),
                     scalar=draw(st.sampled_from([2.5, -1, 0, 3])), constraint=cons(TER))
    elif op == "embedding":
        V = draw(st.integers(2, 10))
        c.update(idx=b + [draw(st.integers(1, 5))], V=V, dim=draw(st.integers(1, 6)),
                 padding_idx=draw(st.sampled_from([None, None, 0, -1, V - 1, -V])),
                 max_norm=draw(st.sampled_from([None, None, None, 1.0, 0.5])), norm_type=draw(st.sampled_from([2.0, 2.0, 1.0])))
    elif op == "sdpa":
        mode = draw(st.sampled_from(["none", "causal", "bool", "float"]))
        S = draw(st.integers(1, 6))
        Sk = S if mode == "causal" else draw(st.sampled_from([S, draw(st.integers(1, 6)), draw(st.integers(1, 6))]))   # cross-attention: key length != query length
        dh = draw(st.integers(1, 8))
        c.update(b=b, S=S, Sk=Sk, d=dh, mode=mode, dropout_p=draw(st.sampled_from([0.0, 0.0, 0.1, 0.3])), mult=draw(mults),
                 mask_bcast=draw(st.booleans()), rng=draw(st.integers(0, 1000)))
    elif op == "cross_entropy":
        V = draw(st.integers(2, 9))
        oneD = draw(st.sampled_from([False, False, False, True]))   # unbatched (1-D) logits
        c.update(V=V, B=None if oneD else draw(st.integers(1, 7)), reduction=draw(st.sampled_from(["mean", "sum", "default"])),
                 ignore=draw(st.sampled_from([None, None, -100, -1, 0, V - 1])), ign_frac=draw(st.sampled_from([0.0, 0.0, 0.3, 0.6])),
                 mult=draw(mults), prob=draw(st.sampled_from([False, True] if oneD else [False, False, False, False, True])))   # class-probability targets
    elif op == "mse_loss":
        c.update(shape=b + [draw(st.integers(1, 6))], reduction=draw(st.sampled_from(["mean", "sum", "default"])))
    c["seedA"] = draw(seeds); c["seedB"] = draw(seeds); c["seedG"] = draw(seeds)
    c["noncontig"] = draw(st.sampled_from([False, False, False, "transposed", "expanded"]))  # operand memory layout (same values)
    c["positional"] = draw(st.integers(0, 3)) == 0  # every argument of the library call passed positionally (signature order)
    c["up_layout"] = draw(st.sampled_from(["dense", "dense", "dense", "partial-reduction"]))  # memory layout of the upstream gradient
    c["default_dtype"] = draw(st.sampled_from([None, None, None, None, "float64", "bfloat16"]))  # torch.set_default_dtype during the call
    c["history"] = draw(st.sampled_from([None, None, None, "other-constraint"]))  # an earlier call of the same op in this process
    c["frozen_role"] = draw(st.sampled_from([None, None, None, 0, 1, 2]))  # one operand (input / weight / bias ...) that does not require a gradient
    # the second data draw uses its own value profile: a scale that depends on magnitudes / sparsity is exposed
    c["profB"] = draw(st.sampled_from(profiles))
    if unsupported_rate and op in UNSUPPORTED and draw(st.floats(0, 1)) < unsupported_rate:
        c["unsupported"] = list(draw(st.sampled_from(UNSUPPORTED[op])))
    return c


# ------------------------------------------------------------------ build


@dataclass
class Built:
    u: Callable
    r: Callable
    ts: List[torch.Tensor]
    roles: List[str]
    constrained: List[str] = field(default_factory=list)  # roles whose gradient scale is under the constraint
    extra: Dict[str, Any] = field(default_factory=dict)


def ckw(c) -> dict:
    return {} if c.get("constraint", "default") == "default" else {"constraint": c["constraint"]}


def build(c: dict, seed: int, unsupported: Optional[Tuple[str, Any]] = None, prof: Optional[str] = None) -> Built:
    op = c["op"]; pr = prof or c["prof"]; dt = DT[c["dtype"]]
    U = _U_POSITIONAL if c.get("positional") else _U_KEYWORD  # noqa: N806  (shadows the module on purpose)
    def T(shape, k=0, prof=None):
        t = rt(shape, seed + k, prof or pr, dt)
        if c.get("noncontig") in (True, "transposed") and t.dim() >= 2:
            t = t.transpose(-1, -2).contiguous().transpose(-1, -2)  # same values, non-contiguous strides
        elif c.get("noncontig") == "expanded" and t.dim() >= 2 and t.shape[0] > 1:
            t = t[:1].expand(t.shape)  # stride-0 leading dimension (rows repeated)
        return t
    ukw: Dict[str, Any] = {}
    if unsupported is not None:
        name, val = unsupported
        ukw[name] = val
    if op == "gelu":
        m = c["mult"]; a = c["approximate"]
        return Built(lambda x: U.gelu(x, mult=m, approximate=a, **ckw(c)), lambda x: F.gelu(x * m, approximate=a) / m,
                     [T(c["shape"])], ["input"], ["input"])
    if op == "silu":
        m = c["mult"]
        return Built(lambda x: U.silu(x, mult=m, **ckw(c), **ukw), lambda x: x * torch.sigmoid(x * m), [T(c["shape"])], ["input"], ["input"])
    if op == "silu_glu":
        m = c["mult"]
        return Built(lambda x, g: U.silu_glu(x, g, mult=m), lambda x, g: x * g * torch.sigmoid(g * m),
                     [T(c["shape"]), T(c["shape"], 1)], ["input", "gate"], ["input", "gate"])
    if op == "softmax":
        m = c["mult"]; sd = DT[c["sm_dtype"]] if c.get("sm_dtype") else None
        return Built(lambda x: U.softmax(x, dim=c["dim"], dtype=sd, mult=m, **ckw(c)),
                     lambda x: F.softmax(x * m, dim=c["dim"], dtype=sd), [T(c["shape"])], ["input"], ["input"])
    if op == "dropout":
        def u(x):
            if not c.get("no_seed"):
                torch.manual_seed(c["rng"])
            return U.dropout(x, c["p"], c["training"], **ukw)

        def r(x):
            torch.manual_seed(c["rng"])
            return F.dropout(x, c["p"], c["training"])
        return Built(u, r, [T(c["shape"])], ["input"], ["input"])
    if op == "matmul":
        return Built(lambda l, r: U.matmul(l, r, **ckw(c)), torch.matmul, [T(c["l"]), T(c["r"], 1)], ["left", "right"], ["left", "right"])
    if op in ("linear", "linear_readout"):
        ts = [T(c["x"]), T(c["w"], 1)] + ([T([c["w"][0]], 2)] if c["bias"] else [])
        f = U.linear if op == "linear" else U.linear_readout
        return Built(lambda x, w, b=None: f(x, w, b, **ckw(c)), lambda x, w, b=None: F.linear(x, w, b), ts,
                     ["input", "weight", "bias"][: len(ts)], ["input"])
    if op == "conv1d":
        ts = [T(c["x"]), T(c["w"], 1)] + ([T([c["w"][0]], 2)] if c["bias"] else [])
        kw = (c["stride"], c["padding"], c["dilation"], c["groups"])
        return Built(lambda x, w, b=None: U.conv1d(x, w, b, *kw, **ckw(c)), lambda x, w, b=None: F.conv1d(x, w, b, *kw), ts,
                     ["input", "weight", "bias"][: len(ts)], ["input"])
    if op == "layer_norm":
        ns = c["ns"]
        has_b = c["bias"]
        if has_b and not c["weight"]:
            # a bias without a gain (weight=None, bias=b): accepted by F.layer_norm, a combination the module classes never produce
            ts = [T(c["x"]), T(ns, 2)]
            ns_u0 = [list(ns), tuple(ns), torch.Size(ns)][c["seedA"] % 3]
            return Built(lambda x, b: U.layer_norm(x, ns_u0, None, b, c["eps"]), lambda x, b: F.layer_norm(x, tuple(ns), None, b, c["eps"]), ts, ["input", "bias"], [])
        ts = [T(c["x"])] + ([T(ns, 1)] if c["weight"] else []) + ([T(ns, 2)] if has_b else [])

        # normalized_shape as a list, a tuple or a torch.Size (all accepted by the torch counterpart)
        ns_u = [list(ns), tuple(ns), torch.Size(ns)][c["seedA"] % 3]

        def mk(f, shape):
            def g(x, w=None, b=None):
                return f(x, shape, w, b, c["eps"])
            return g
        return Built(mk(U.layer_norm, ns_u), mk(F.layer_norm, tuple(ns)), ts, ["input", "weight", "bias"][: len(ts)], [])
    if op == "rms_norm":
        ns = c["ns"]
        ts = [T(c["x"])] + ([T(ns, 1)] if c["weight"] else [])
        dims = tuple(range(-len(ns), 0))

        def r(x, w=None):
            y = x / torch.sqrt(x.pow(2).mean(dims, keepdim=True) + c["eps"])
            return y * w if w is not None else y
        ns_u = [tuple(ns), torch.Size(ns)][c["seedA"] % 2]   # (U.rms_norm is annotated Tuple[int, ...]: a list is outside its documented domain)
        return Built(lambda x, w=None: U.rms_norm(x, ns_u, w, c["eps"]), r, ts, ["input", "weight"][: len(ts)], [])
    if op == "add":
        sc = c["scalar"]
        if c["a"] == "scalar":
            return Built(lambda b_: U.add(sc, b_, **ckw(c), **ukw), lambda b_: torch.add(sc, b_), [T(c["b"], 1)], ["other"], [])
        if c["b"] == "scalar":
            return Built(lambda a: U.add(a, sc, **ckw(c), **ukw), lambda a: torch.add(a, sc), [T(c["a"])], ["input"], [])
        return Built(lambda a, b_: U.add(a, b_, **ckw(c), **ukw), torch.add, [T(c["a"]), T(c["b"], 1)], ["input", "other"], ["input", "other"])
    if op == "embedding":
        g = torch.Generator().manual_seed(seed)
        V = c["V"]
        idx = torch.randint(0, V, tuple(c["idx"]), generator=g)
        if c.get("avoid_padding") and c["padding_idx"] is not None:
            idx = torch.where(idx == c["padding_idx"] % V, (idx + 1) % V, idx)
        kw = dict(padding_idx=c["padding_idx"], max_norm=c["max_norm"], norm_type=c["norm_type"])
        # max_norm renormalises the weight *in place* in both implementations: work on copies
        # (the reference works on a copy; the library is given the caller's tensor itself: it must neither modify it nor leave anything attached to it)
        return Built(lambda w: U.embedding(idx, w, **kw, **ukw), lambda w: F.embedding(idx, w * 1.0, **kw), [T([V, c["dim"]], 1)],
                     ["weight"], [], dict(idx=idx))
    if op == "sdpa":
        b = c["b"]
        q = T(b + [c["S"], c["d"]]); k = T(b + [c["Sk"], c["d"]], 1); v = T(b + [c["Sk"], c["d"]], 2)
        g = torch.Generator().manual_seed(seed + 3)
        mshape = [c["S"], c["Sk"]] if c["mask_bcast"] else b + [c["S"], c["Sk"]]
        mask = None
        if c["mode"] == "bool":
            mask = torch.rand(mshape, generator=g) > 0.4
            mask[..., 0] = True  # no fully masked row
        if c["mode"] == "float":
            mask = torch.randn(mshape, generator=g, dtype=D).to(dt)
        kw = dict(attn_mask=mask, dropout_p=c["dropout_p"], is_causal=c["mode"] == "causal")

        def u(q, k, v):
            if not c.get("no_seed"):
                torch.manual_seed(c["rng"])
            return U.scaled_dot_product_attention(q, k, v, mult=c["mult"], **kw)

        def r(q, k, v):
            torch.manual_seed(c["rng"])
            kw_ = dict(kw, attn_mask=mask.to(q.dtype)) if mask is not None and mask.is_floating_point() else kw
            return F.scaled_dot_product_attention(q, k, v, scale=c["mult"] / c["d"], **kw_)
        return Built(u, r, [q, k, v], ["query", "key", "value"], ["query", "key", "value"], dict(mask=mask))
    if op == "cross_entropy":
        V = c["V"]; B = c["B"]
        g = torch.Generator().manual_seed(seed + 1)
        x = T([V] if B is None else [B, V])
        if c["prob"]:
            t = torch.softmax(torch.randn(x.shape, generator=g, dtype=D), -1).to(dt)
        else:
            t = torch.randint(0, V, () if B is None else (B,), generator=g)
            ign = c["ignore"]
            if ign is not None and c["ign_frac"] > 0 and B is not None:
                # the second data draw (own value profile) also ignores a different share of the targets
                frac = c["ign_frac"] if prof is None else {0.3: 0.7, 0.6: 0.2}.get(c["ign_frac"], c["ign_frac"])
                t = torch.where(torch.rand((B,), generator=g) < frac, torch.tensor(ign), t)
        kw = {}
        if c["reduction"] != "default":
            kw["reduction"] = c["reduction"]
        if c["ignore"] is not None:
            kw["ignore_index"] = c["ignore"]
        rkw = dict(kw)
        if unsupported is not None:
            name, val = unsupported
            if name == "weight":
                ukw = {"weight": torch.ones(V, dtype=dt)}
            if name == "reduction":
                ukw = {}
                kw = dict(kw, reduction=val)
        m = c["mult"]
        return Built(lambda x: U.cross_entropy(x, t, mult=m, **kw, **ukw), lambda x: F.cross_entropy(x * m, t.to(x.dtype) if t.is_floating_point() else t, **rkw), [x], ["input"], [],
                     dict(target=t, kw=rkw))
    if op == "mse_loss":
        kw = {} if c["reduction"] == "default" else {"reduction": c["reduction"]}
        ukw2 = dict(ukw)
        if unsupported is not None and unsupported[0] == "reduction":
            kw = {"reduction": unsupported[1]}
            ukw2 = {}
        return Built(lambda a, b_: U.mse_loss(a, b_, **kw, **ukw2), lambda a, b_: F.mse_loss(a, b_, **{k_: v_ for k_, v_ in kw.items() if v_ != "none"}),
                     [T(c["shape"]), T(c["shape"], 1)], ["input", "target"], [])
    raise KeyError(op)


class _Positional:
    """proxy for unit_scaling.functional: calls every function with all its arguments bound positionally"""

    def __init__(self, mod):
        self._mod = mod

    def __getattr__(self, name):
        import inspect
        fn = getattr(self._mod, name)
        if not callable(fn):
            return fn
        try:
            sig = inspect.signature(fn)
        except (TypeError, ValueError):
            return fn

        def call(*args, **kwargs):
            try:
                ba = sig.bind(*args, **kwargs)
            except TypeError:
                return fn(*args, **kwargs)
            return fn(*ba.args, **ba.kwargs)
        return call


_U_KEYWORD = U
_U_POSITIONAL = _Positional(U)


def sum_reduced(c: dict) -> Optional[dict]:
    """for mean-reduced losses the gradient reference is the sum-reduced PyTorch loss"""
    if c["op"] in ("cross_entropy", "mse_loss") and c.get("reduction") in ("mean", "default"):
        return dict(c, reduction="sum")
    return None


# ------------------------------------------------------------------ scalar fit


# below these magnitudes of the reference a low-precision result is dominated by underflow / subnormal
# rounding (ratios of tiny integers), so there is nothing to fit
FLOOR = {torch.float64: 1e-100, torch.float32: 1e-30, torch.bfloat16: 1e-6, torch.float16: 1e-2}


def fit(y: torch.Tensor, r: torch.Tensor, floor: Optional[float] = None):
    """least-squares scalar s with y ~ s r; returns (s, residual) or None when not fit-able"""
    if floor is None:
        floor = FLOOR.get(r.dtype, 1e-100)
    y = y.detach().to(D).flatten()
    r = r.detach().to(D).flatten()
    if r.numel() < 1 or y.numel() != r.numel():
        return None
    rmax = r.abs().max().item()
    if not math.isfinite(rmax) or rmax < floor or not bool(torch.isfinite(y).all()):
        return None if not math.isfinite(rmax) or rmax < floor else (float("nan"), float("inf"))
    rr = (r @ r).item()
    if rr == 0 or not math.isfinite(rr):
        # rescale to avoid overflow/underflow of the dot product
        r2 = r / rmax
        y2 = y / rmax
        rr = (r2 @ r2).item()
        s = ((y2 @ r2) / rr).item()
    else:
        s = ((y @ r) / rr).item()
    if s == 0:
        return (0.0, float("inf"))
    res = ((y - s * r).abs().max() / (abs(s) * rmax)).item()
    return s, res


def noise(r: torch.Tensor, r64: torch.Tensor) -> float:
    """max deviation of a low-precision reference from its float64 evaluation, relative to the largest element"""
    r = r.detach().to(D).flatten()
    r64 = r64.detach().to(D).flatten()
    m = r64.abs().max().item()
    if r.numel() != r64.numel() or not math.isfinite(m) or m == 0:
        return float("inf")
    return ((r - r64).abs().max() / m).item()


def tol_for(c: dict):
    t = TOL[c["dtype"]]
    if c["op"] == "rms_norm":
        t = tuple(max(a, b) for a, b in zip(t, RMS_TOL))
    if c["op"] == "softmax" and c.get("sm_dtype") == "float32" and c["dtype"] == "float64":
        t = tuple(max(a, b) for a, b in zip(t, TOL["float32"]))
    return t


@dataclass
class Probe:
    status: str = "ok"  # ok | ref_unsupported | degenerate
    fwd_fails: List[Tuple[str, str]] = field(default_factory=list)
    bwd_fails: List[Tuple[str, str]] = field(default_factory=list)
    s_fwd: List[float] = field(default_factory=list)
    s_bwd: Dict[str, List[float]] = field(default_factory=dict)
    out_numel: int = 0
    grads_fit: int = 0


def _agrad(y, ts, up):
    """gradients with respect to the tensors of `ts` that require one (None for the others)"""
    idx = [i for i, t in enumerate(ts) if t.requires_grad]
    out = [None] * len(ts)
    if idx:
        for i, g_ in zip(idx, torch.autograd.grad(y, [ts[i] for i in idx], up, allow_unused=True, retain_graph=True)):
            out[i] = g_
    return out


def probe(c: dict, want_bwd: bool = True, seeds: Optional[List[int]] = None, upstream: int = 1) -> Probe:
    """Run the library op and its reference for the data seeds; fit forward and gradient scalars."""
    P = Probe()
    op = c["op"]
    tol = tol_for(c)
    seeds = seeds if seeds is not None else [c["seedA"], c["seedB"]]
    csum = sum_reduced(c)
    per_seed_g: List[Dict[str, float]] = []
    for si, seed in enumerate(seeds):
        prof_i = c.get("profB") if si == 1 else None
        bu = build(c, seed, prof=prof_i)
        # which operands require a gradient: all of them, or all but one (a layer fed by data; a frozen weight)
        frozen = c["frozen_role"] % len(bu.ts) if (c.get("frozen_role") is not None and len(bu.ts) >= 2) else None
        tu = [t.clone().requires_grad_(i != frozen) for i, t in enumerate(bu.ts)]
        tr = [t.clone().requires_grad_(i != frozen) for i, t in enumerate(bu.ts)]
        if c.get("history") == "other-constraint" and c.get("constraint", "default") != "default":
            # the same geometry has been used before with another constraint (memoised scales must not carry over)
            other = "to_output_scale" if c["constraint"] != "to_output_scale" else None
            try:
                build(dict(c, constraint=other), seed, prof=prof_i).u(*[t.clone() for t in bu.ts])
            except Exception:  # noqa: BLE001
                pass
        snap = [t.detach().clone() for t in tu]
        ver = [t._version for t in tu]
        try:
            yr = bu.r(*tr)
        except Exception:  # noqa: BLE001  reference unsupported for this combination
            P.status = "ref_unsupported"
            return P
        old_default = torch.get_default_dtype()
        try:
            if c.get("default_dtype"):   # the process-wide default dtype during the library call must not matter
                torch.set_default_dtype(getattr(torch, c["default_dtype"]))
            yu = bu.u(*tu)
        except Exception as e:  # noqa: BLE001
            from .runner import exc_bucket
            P.fwd_fails.append((exc_bucket(f"fwd.raises:{op}", e), f"{type(e).__name__}: {e}"))
            return P
        finally:
            torch.set_default_dtype(old_default)
        if not isinstance(yu, torch.Tensor):
            P.fwd_fails.append((f"fwd.type:{op}", f"returned {type(yu).__name__}"))
            return P
        if yu.shape != yr.shape or yu.dtype != yr.dtype:
            P.fwd_fails.append((f"fwd.shape-dtype:{op}", f"library {tuple(yu.shape)} {yu.dtype} vs reference {tuple(yr.shape)} {yr.dtype}"))
            return P
        P.out_numel = yr.numel()
        if not bool(torch.isfinite(yr.detach().to(D)).all()):
            P.status = "degenerate"
            return P
        # low-precision dtypes: how far is the reference itself from its float64 evaluation on the same values?
        # (different but equivalent operation orders round differently; where rounding dominates - cancellation,
        # saturation - there is nothing to fit)
        t64 = y64 = None
        if c["dtype"] != "float64":
            try:
                t64 = [t.detach().to(D).requires_grad_(i != frozen) for i, t in enumerate(bu.ts)]
                y64 = bu.r(*t64)
                nz = noise(yr, y64)
            except Exception:  # noqa: BLE001
                t64 = y64 = None
                nz = 0.0
            if nz > tol[0] / 4:
                P.status = "degenerate"
                return P
        f = fit(yu, yr)
        if f is None:
            P.status = "degenerate"
            return P
        s, res = f
        if not (res <= tol[0]):
            P.fwd_fails.append((f"fwd.residual:{op}", f"s={s!r} residual={res:.3g} > {tol[0]:.1g}"))
        if not s > 0:
            P.fwd_fails.append((f"fwd.nonpositive:{op}", f"s={s!r}"))
        if op in ONE and not abs(s - 1) <= tol[2]:
            P.fwd_fails.append((f"fwd.scalar-not-1:{op}", f"s={s!r} (library {yu.detach().flatten()[:3].tolist()} vs reference {yr.detach().flatten()[:3].tolist()})"))
        P.s_fwd.append(s)
        if want_bwd:
            if csum is not None:
                bsum = build(csum, seed, prof=prof_i)
                yr = bsum.r(*tr)
                if y64 is not None:
                    y64 = bsum.r(*t64)
            gs: Dict[str, float] = {}
            for gi in range(upstream):
                gup = rt(tuple(yu.shape), c["seedG"], "normal", yu.dtype, salt=1 + 2 * gi + si)
                if c.get("up_layout") == "partial-reduction" and yu.dim() >= 2:
                    # the gradient of a partial reduction (y.sum(dim=k)): constant along one dimension, stride 0 there
                    k_ = c["seedG"] % yu.dim()
                    gup = gup.narrow(k_, 0, 1).expand(yu.shape)
                try:
                    gr = _agrad(yr, tr, gup)
                except Exception:  # noqa: BLE001
                    P.status = "ref_unsupported"
                    return P
                try:
                    gu = _agrad(yu, tu, gup)
                except Exception as e:  # noqa: BLE001
                    from .runner import exc_bucket
                    P.bwd_fails.append((exc_bucket(f"bwd.raises:{op}", e), f"{type(e).__name__}: {e}"))
                    return P
                g64 = None
                if y64 is not None:
                    try:
                        g64 = _agrad(y64, t64, gup.to(D))
                    except Exception:  # noqa: BLE001
                        g64 = None
                # cancellation guard (float64 cases have no noise estimate): the same reference gradient with |operands| and
                # |upstream| - the size of the terms that were summed. A gradient that is < 1e-4 of that is rounding noise of the sum
                # (integer weights adding up to zero under a constant upstream), nothing can be fitted to it.
                gabs = None
                if c["dtype"] == "float64":
                    try:
                        ta = [t.detach().abs().requires_grad_(t.requires_grad) for t in tr]
                        gabs = _agrad((bsum if csum is not None else bu).r(*ta), ta, gup.abs())
                    except Exception:  # noqa: BLE001
                        gabs = None
                for ri, (role, a, b_) in enumerate(zip(bu.roles, gu, gr)):
                    if (a is None) != (b_ is None):
                        P.bwd_fails.append((f"bwd.presence:{op}:{role}", f"library grad {'missing' if a is None else 'present'}, reference {'missing' if b_ is None else 'present'}"))
                        continue
                    if a is None:
                        continue
                    if a.shape != b_.shape or a.dtype != b_.dtype:
                        P.bwd_fails.append((f"bwd.shape-dtype:{op}:{role}", f"{tuple(a.shape)} {a.dtype} vs {tuple(b_.shape)} {b_.dtype}"))
                        continue
                    ff = fit(a, b_)
                    if ff is None:
                        continue
                    if g64 is not None and g64[ri] is not None and noise(b_, g64[ri]) > tol[3] / 4:
                        continue
                    if gabs is not None and gabs[ri] is not None and gabs[ri].shape == b_.shape and \
                            b_.detach().abs().max().item() < 1e-4 * gabs[ri].detach().abs().max().item():
                        continue
                    if op == "rms_norm" and role == "input":
                        # float32 denominator (by design): the library's error is ~1e-7 x |g| |w| / rms(x); when the
                        # true gradient is a small remainder of that (upstream nearly parallel to x) nothing can be fitted
                        x64 = tr[0].detach().to(D)
                        dims_ = tuple(range(-len(c["ns"]), 0))
                        min_rms = x64.pow(2).mean(dims_).sqrt().min().item()
                        wmax = tr[1].detach().abs().max().item() if len(tr) > 1 else 1.0
                        nat = gup.abs().max().item() * wmax / max(min_rms, 1e-300)
                        eps_eff = {"float64": 1e-7, "float32": 1e-7, "bfloat16": 2.0**-8, "float16": 2.0**-11}[c["dtype"]]
                        if b_.detach().to(D).abs().max().item() < max(1e-2, 4 * eps_eff / tol[3]) * nat:
                            continue
                    P.grads_fit += 1
                    if not ff[1] <= tol[3]:
                        P.bwd_fails.append((f"bwd.residual:{op}:{role}", f"s={ff[0]!r} residual={ff[1]:.3g} > {tol[3]:.1g}"))
                        continue
                    if not ff[0] > 0:
                        P.bwd_fails.append((f"bwd.nonpositive:{op}:{role}", f"s={ff[0]!r}"))
                    key = role
                    if key in gs and not abs(gs[key] - ff[0]) <= tol[4] * abs(gs[key]):
                        P.bwd_fails.append((f"bwd.upstream-dependent:{op}:{role}", f"{gs[key]!r} vs {ff[0]!r} for two upstream gradients"))
                    gs.setdefault(key, ff[0])
                    P.s_bwd.setdefault(role, []).append(ff[0])
            per_seed_g.append(gs)
        for role, t, s0, v0 in zip(bu.roles, tu, snap, ver):
            if t._version != v0 or not torch.equal(t.detach(), s0):
                P.fwd_fails.append((f"input-modified:{op}:{role}", f"version {v0}->{t._version}"))
    if len(P.s_fwd) >= 2 and not abs(P.s_fwd[0] - P.s_fwd[1]) <= tol[1] * abs(P.s_fwd[0]):
        P.fwd_fails.append((f"fwd.data-dependent:{op}", f"s={P.s_fwd[0]!r} vs {P.s_fwd[1]!r} for two data draws"))
    if len(per_seed_g) >= 2:
        for role in per_seed_g[0]:
            if role in per_seed_g[1]:
                a, b_ = per_seed_g[0][role], per_seed_g[1][role]
                if not abs(a - b_) <= tol[4] * abs(a):
                    P.bwd_fails.append((f"bwd.data-dependent:{op}:{role}", f"s={a!r} vs {b_!r} for two data draws"))
    return P


def nontrivial_config(c: dict) -> bool:
    """>=1 leading batch dim of size > 1, or a non-default hyper-parameter / dtype / constraint"""
    if c["dtype"] != "float64":
        return True
    if c.get("constraint", "default") != "default":
        return True
    for k in ("mult",):
        if k in c and c[k] != 1.0:
            return True
    op = c["op"]
    lead = {"gelu": "shape", "silu": "shape", "silu_glu": "shape", "softmax": "shape", "dropout": "shape", "linear": "x",
            "linear_readout": "x", "conv1d": "x", "layer_norm": "x", "rms_norm": "x", "mse_loss": "shape", "matmul": "l",
            "embedding": "idx"}
    if op in lead:
        sh = c[lead[op]]
        if any(v > 1 for v in sh[:-1]):
            return True
    if op == "sdpa":
        return bool(c["b"]) or c["mode"] != "none" or c["dropout_p"] > 0
    if op == "cross_entropy":
        return c["reduction"] not in ("mean", "default") or c["ignore"] is not None or c["prob"] or c["B"] is None
    if op == "add":
        return c["a"] != c["b"]
    if op == "conv1d":
        return (c["stride"], c["padding"], c["dilation"], c["groups"]) != (1, 0, 1, 1)
    if op == "embedding":
        return c["padding_idx"] is not None or c["max_norm"] is not None
    if op == "dropout":
        return c["p"] != 0.5 or not c["training"]
    if op in ("layer_norm", "rms_norm"):
        return c["eps"] != 1e-5 or c["weight"]
    if op == "softmax":
        return c["dim"] != -1
    return False


def class_labels(c: dict) -> List[str]:
    op = c["op"]
    labs = [f"op={op}", f"dtype={c['dtype']}"]
    if op == "cross_entropy" and c["ign_frac"] > 0 and c["ignore"] is not None and c["B"] is not None and not c["prob"]:
        labs.append("ignored-targets")
    if op == "softmax" and c["dim"] < 0:
        labs.append("negative-dim")
    if op == "add":
        labs.append("add:" + ("pyscalar" if "scalar" in (c["a"], c["b"]) else ("same-shape" if c["a"] == c["b"] else "broadcast")))
    if "constraint" in c:
        labs.append(f"constraint={c['constraint']}")
    if op == "sdpa":
        labs.append(f"sdpa:{c['mode']}")
    if c.get("default_dtype"):
        labs.append("default-dtype=" + c["default_dtype"])
    if c.get("frozen_role") is not None:
        labs.append("one-operand-without-grad")
    if c.get("history") and c.get("constraint", "default") != "default":
        labs.append("after-call-with-other-constraint")
    if c.get("up_layout", "dense") != "dense":
        labs.append("upstream=" + c["up_layout"])
    if c.get("noncontig"):
        labs.append(f"layout={c['noncontig']}")
    if c.get("positional"):
        labs.append("positional-call")
    return labs
