#!/bin/bash
# re-evaluate every seeded change against the checks named in its meta.json (first one = the property's own check)
cd "$(dirname "$0")/.."
for d in seeded/*-agent*/; do
  n=$(basename $d)
  c=$(/venv/bin/python -c "import json;print(json.load(open('$d/meta.json'))['checks_expected'][0])")
  tools/seed_eval.py $n --checks $c 2>&1 | grep -E "^SEED|PATCH" | cut -c1-200
done
