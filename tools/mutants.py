#!/venv/bin/python
"""Sensitivity harness: applies hand-written mutants (string replacements) to a scratch copy of
/repo, runs the named checks (quick tier) against the copy via VERIF_REPO, and reports which
checks raise VIOLATION.  The copy lives under /dev/shm or $TMPDIR and is removed afterwards.

usage: tools/mutants.py [-k substring] [--checks C01,C02] [--list]
"""
import argparse
import os
import shutil
import subprocess
import sys
import tempfile
import time

ROOT = os.path.dirname(os.path.dirname(os.path.abspath(__file__)))
REPO = "/repo"

M = []  # (name, file, old, new, [checks expected to fail])


def mut(name, file, old, new, checks):
    M.append((name, file, old, new, checks))


exec(open(os.path.join(ROOT, "tools", "mutant_table.py")).read())


def main():
    ap = argparse.ArgumentParser()
    ap.add_argument("-k", default="")
    ap.add_argument("--checks", default="")
    ap.add_argument("--list", action="store_true")
    ap.add_argument("--neutral", action="store_true", help="run the property-preserving refactorings: every check must stay quiet")
    ap.add_argument("--scale", default="1")
    ap.add_argument("--force-checks", default="", help="run these checks against the selected mutants regardless of the table")
    args = ap.parse_args()
    rows = []
    table = M
    if args.neutral:
        table = globals().get("NEUTRAL", [])
    for name, file, old, new, checks in table:
        if args.k and args.k not in name:
            continue
        if args.checks:
            checks = [c for c in checks if c in args.checks.split(",")]
            if not checks:
                continue
        if args.force_checks:
            checks = args.force_checks.split(",")
        if args.list:
            print(name, file, checks)
            continue
        tmp = tempfile.mkdtemp(prefix="mut_", dir="/dev/shm" if os.path.isdir("/dev/shm") else None)
        try:
            dst = os.path.join(tmp, "repo")
            shutil.copytree(REPO, dst, ignore=shutil.ignore_patterns(".git", "__pycache__", "*.egg-info", "docs", "analysis", "examples"))
            p = os.path.join(dst, file)
            s = open(p).read()
            if s.count(old) != 1:
                print(f"MUTANT {name}: pattern occurs {s.count(old)} times in {file} - skipped")
                rows.append((name, "PATTERN", "", 0))
                continue
            open(p, "w").write(s.replace(old, new))
            for c in checks:
                t0 = time.time()
                env = dict(os.environ, VERIF_REPO=dst, VERIF_BUDGET_SCALE=args.scale)
                r = subprocess.run([os.path.join(ROOT, "check"), c, "quick"], cwd=ROOT, env=env, capture_output=True, text=True)
                viol = [l for l in r.stdout.splitlines() if l.startswith("VIOLATION")]
                buckets = [l.strip() for l in r.stdout.splitlines() if l.strip().startswith("bucket=")]
                status = {0: "MISSED", 1: "caught", 2: "HARNESS-ERROR"}.get(r.returncode, str(r.returncode))
                if args.neutral:
                    status = {0: "quiet", 1: "FALSE-ALARM", 2: "HARNESS-ERROR"}.get(r.returncode, str(r.returncode))
                print(f"MUTANT {name:45s} {c}: {status} ({len(viol)} buckets, {time.time() - t0:.0f}s) {buckets[:2]}")
                if r.returncode == 2:
                    print(r.stdout[-1500:])
                rows.append((name, c, status, len(viol)))
                sys.stdout.flush()
        finally:
            shutil.rmtree(tmp, ignore_errors=True)
            # (evidence / replays of scratch runs go to .work/scratch-out, see runner._out_root)
    if not args.list:
        good = "quiet" if args.neutral else "caught"
        missed = [r for r in rows if r[2] != good]
        print(f"\n{len(rows) - len(missed)}/{len(rows)} {good}; others: {missed}")


if __name__ == "__main__":
    main()
