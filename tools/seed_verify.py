#!/venv/bin/python
"""Confirm a seeded change myself: patch applies to a clean export of /repo HEAD; demo passes without and fails with it;
the repository's own test suite (network tests deselected) still passes with it.  usage: tools/seed_verify.py <name> [--no-tests]"""
import os, shutil, subprocess, sys, tempfile, json, time
ROOT = os.path.dirname(os.path.dirname(os.path.abspath(__file__)))
name = sys.argv[1]
d = os.path.join(ROOT, "seeded", name)
tmp = tempfile.mkdtemp(prefix="sv_", dir="/dev/shm")
out = dict(name=name)
try:
    dst = os.path.join(tmp, "repo"); os.makedirs(dst)
    subprocess.run(f"git -C /repo archive HEAD | tar -x -C {dst}", shell=True, check=True)
    env = dict(os.environ, PYTHONPATH=dst)
    r0 = subprocess.run(["/venv/bin/python", os.path.join(d, "demo.py")], cwd=dst, env=env, capture_output=True, text=True)
    out["demo_unpatched_exit"] = r0.returncode
    p = subprocess.run(["patch", "-p1", "-i", os.path.join(d, "patch.diff")], cwd=dst, capture_output=True, text=True)
    out["patch_applies"] = p.returncode == 0
    r1 = subprocess.run(["/venv/bin/python", os.path.join(d, "demo.py")], cwd=dst, env=env, capture_output=True, text=True)
    out["demo_patched_exit"] = r1.returncode
    out["demo_patched_tail"] = (r1.stdout + r1.stderr).strip().splitlines()[-1][:200] if (r1.stdout + r1.stderr).strip() else ""
    if "--no-tests" not in sys.argv:
        t0 = time.time()
        r = subprocess.run(["/venv/bin/python", "-m", "pytest", "-q", "-p", "no:cacheprovider", "-x", "unit_scaling/tests", "--deselect", "unit_scaling/tests/test_analysis.py"],
                           cwd=dst, env=env, capture_output=True, text=True)
        out["tests_exit"] = r.returncode
        out["tests_tail"] = r.stdout.strip().splitlines()[-1][:200] if r.stdout.strip() else ""
        out["tests_s"] = round(time.time() - t0)
    print(json.dumps(out))
finally:
    shutil.rmtree(tmp, ignore_errors=True)
