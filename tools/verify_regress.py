#!/venv/bin/python
"""For every `fixed` entry of known_findings.json: export /repo at <commit>^ to a scratch dir and replay every
regress file of that property whose name starts with 'fixed-' and is listed (or shares the property) - the listed one
must report a VIOLATION on the pre-fix tree and pass on the current tree."""
import json, os, shutil, subprocess, sys, tempfile
ROOT = os.path.dirname(os.path.dirname(os.path.abspath(__file__)))
k = json.load(open(os.path.join(ROOT, "known_findings.json")))
bad = 0
for f in k["findings"]:
    if f["status"] != "fixed":
        continue
    tmp = tempfile.mkdtemp(prefix="pre_", dir="/dev/shm")
    try:
        dst = os.path.join(tmp, "repo"); os.makedirs(dst)
        p = subprocess.run(f"git -C /repo archive {f['commit']}^ unit_scaling | tar -x -C {dst}", shell=True)
        env = dict(os.environ, VERIF_REPO=dst)
        r = subprocess.run([os.path.join(ROOT, "check"), f["property"], "--replay", f["regress"]], cwd=ROOT, env=env, capture_output=True, text=True)
        r2 = subprocess.run([os.path.join(ROOT, "check"), f["property"], "--replay", f["regress"]], cwd=ROOT, capture_output=True, text=True)
        ok = r.returncode == 1 and r2.returncode == 0
        bad += not ok
        print(("ok  " if ok else "BAD ") + f"{f['property']} {f['commit']} pre-fix exit={r.returncode} now exit={r2.returncode}  {f['regress']}")
        if not ok:
            print(r.stdout[-600:])
    finally:
        shutil.rmtree(tmp, ignore_errors=True)
sys.exit(1 if bad else 0)
