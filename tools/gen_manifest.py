#!/venv/bin/python
"""Regenerates MANIFEST.json from the table below (keeps it schema-valid at all times).

A property is *claimed* iff checks/<id>.py exists and it has an entry in CLAIMS; every other
property of properties.jsonl is listed under not_applicable with the reason given in PENDING.
"""
import json
import os
import sys

ROOT = os.path.dirname(os.path.dirname(os.path.abspath(__file__)))

CLAIMS = {}
PENDING = {}


def claim(pid, technique, text, note, design_ref, engine="hypothesis"):
    CLAIMS[pid] = dict(technique=technique, text=text, note=note, design_ref=design_ref, engine=engine)


exec(open(os.path.join(ROOT, "tools", "claims.py")).read())

props = [json.loads(l) for l in open(os.path.join(ROOT, "properties.jsonl"))]
checks = []
na = []
for p in props:
    pid = p["id"]
    if pid in CLAIMS and os.path.exists(os.path.join(ROOT, "checks", pid.lower() + ".py")):
        c = CLAIMS[pid]
        checks.append(dict(
            property_id=pid,
            quick_cmd=f"./check {pid} quick",
            thorough_cmd=f"./check {pid} thorough",
            evidence_file=f"/verif/evidence/{pid}.json",
            replay_cmd_template=f"./check {pid} --replay {{path}}",
            engine=c["engine"],
            level_claimed=dict(category="exploration", text=c["text"], design_ref=c["design_ref"]),
            level_note=c["note"],
            technique=c["technique"],
        ))
    else:
        na.append(dict(property_id=pid, reason=PENDING.get(pid, "check not built yet (planned in DESIGN.md section 4); not claimed until it is")))

manifest = dict(
    version=1,
    setup_cmd="/venv/bin/pip install --no-index --find-links /opt/veriftools/wheels hypothesis >/dev/null 2>&1; /venv/bin/python -c 'import hypothesis, torch, numpy, networkx'",
    hooks=dict(
        guard="UNIT_SCALING_VERIF",
        enable="no instrumentation is compiled into the library: checks import /repo's working tree directly (editable install, /repo first on sys.path) and observe public API boundaries; the variable is exported by ./check for completeness",
        baseline_off_cmd="cd /repo && /venv/bin/python -m pytest -ra -q -p no:cacheprovider --timeout=900 --continue-on-collection-errors",
        source_commits=[],
        add_only=True,
    ),
    engines=[
        dict(name="hypothesis", path="/verif/vlib/runner.py", serves_properties=[c["property_id"] for c in checks if c["engine"] == "hypothesis"],
             kind_free_text="Hypothesis 6.168 strategies producing JSON case descriptors; sharded subprocesses seeded from VERIF_SEED; collect-then-shrink with root-cause buckets"),
        dict(name="enumeration", path="/verif/vlib/runner.py", serves_properties=[c["property_id"] for c in checks if c["engine"] == "enumeration"],
             kind_free_text="exhaustive / structured enumeration of finite sub-domains over a process pool (same runner, enumeration parts), plus Hypothesis parts for the unbounded remainder"),
    ],
    checks=checks,
    notes="Property-based testing / fuzzing only. ./check <ID> <quick|thorough> [--replay FILE]; exit 0 held, 1 VIOLATION, 2 harness error. known_findings.json lists known and fixed defects; regress/<ID>/ holds shrunk inputs of fixed defects replayed by every run.",
    not_applicable=na,
)
with open(os.path.join(ROOT, "MANIFEST.json"), "w") as f:
    json.dump(manifest, f, indent=1)
try:
    import jsonschema
    jsonschema.validate(manifest, json.load(open("/root/.vp/MANIFEST.schema.json")))
    print("MANIFEST.json valid;", len(checks), "claimed,", len(na), "not claimed")
except ImportError:
    print("jsonschema not available; wrote MANIFEST.json", len(checks), len(na))
