#!/bin/bash
# tools/seed_ingest.sh <ID> <round> [checks]: copy a seeder's deliverables into seeded/<ID>-agent<round>, verify, evaluate
id=$1; r=$2; checks=${3:-$id}
cd "$(dirname "$0")/.."
d=seeded/$id-agent$r; mkdir -p $d
src=/tmp/wt${r}_$id/_seed; [ "$r" = "1" ] && src=/tmp/wt_$id/_seed
cp $src/patch.diff $src/demo.py $src/notes.md $d/ 2>/dev/null
(tools/seed_verify.py $id-agent$r > /tmp/sv${r}_$id.json 2>&1 &)
tools/seed_eval.py $id-agent$r --checks $checks 2>&1 | grep -E "SEED|demo on|PATCH" | cut -c1-320
