#!/venv/bin/python
"""Evaluate seeded changes: for each seeded/<name>/patch.diff, apply it to a scratch copy of /repo (never to /repo
itself while background runs use it), run the demo (must fail with the patch and pass without) and the listed / all checks.
usage: tools/seed_eval.py <name> [--checks C01,C02] [--tier quick] [--all-checks]
"""
import argparse, json, os, shutil, subprocess, sys, tempfile, time
ROOT = os.path.dirname(os.path.dirname(os.path.abspath(__file__)))
ap = argparse.ArgumentParser()
ap.add_argument("name")
ap.add_argument("--checks", default="")
ap.add_argument("--tier", default="quick")
ap.add_argument("--dir", default=os.path.join(ROOT, "seeded"))
args = ap.parse_args()
d = os.path.join(args.dir, args.name)
meta = json.load(open(os.path.join(d, "meta.json"))) if os.path.exists(os.path.join(d, "meta.json")) else {}
checks = args.checks.split(",") if args.checks else meta.get("checks_expected", [meta.get("property", args.name[:3])])
tmp = tempfile.mkdtemp(prefix="seed_", dir="/dev/shm")
try:
    dst = os.path.join(tmp, "repo")
    shutil.copytree("/repo", dst, ignore=shutil.ignore_patterns(".git", "__pycache__", "*.egg-info", "docs", "analysis", "examples"))
    demo = next((f for f in os.listdir(d) if f.startswith("demo")), None)
    if demo:
        r0 = subprocess.run(["/venv/bin/python", os.path.join(d, demo)], cwd=dst, env=dict(os.environ, PYTHONPATH=dst), capture_output=True, text=True)
        print(f"demo on unpatched tree: exit={r0.returncode}")
    p = subprocess.run(["patch", "-p1", "-i", os.path.join(d, "patch.diff")], cwd=dst, capture_output=True, text=True)
    if p.returncode != 0:
        print("PATCH FAILED", p.stdout, p.stderr); sys.exit(2)
    if demo:
        r1 = subprocess.run(["/venv/bin/python", os.path.join(d, demo)], cwd=dst, env=dict(os.environ, PYTHONPATH=dst), capture_output=True, text=True)
        print(f"demo on patched tree:   exit={r1.returncode}  {(r1.stdout + r1.stderr).strip().splitlines()[-1][:200] if (r1.stdout + r1.stderr).strip() else ''}")
    for c in checks:
        t0 = time.time()
        r = subprocess.run([os.path.join(ROOT, "check"), c, args.tier], cwd=ROOT, env=dict(os.environ, VERIF_REPO=dst), capture_output=True, text=True)
        status = {0: "MISSED", 1: "caught", 2: "HARNESS-ERROR"}.get(r.returncode, str(r.returncode))
        buckets = [l.strip() for l in r.stdout.splitlines() if l.strip().startswith("bucket=")]
        print(f"SEED {args.name:28s} {c} {args.tier}: {status} ({time.time() - t0:.0f}s) {buckets[:3]}")
        if r.returncode == 2:
            print(r.stdout[-1200:])
finally:
    shutil.rmtree(tmp, ignore_errors=True)
