# executed by gen_manifest.py; one claim() per property whose check is built and trusted
claim(
    "C13",
    technique="exhaustive enumeration of float32 bit patterns (E4M3/E5M2) + structured probes for all 168 formats + Hypothesis over dtype/shape/layout, against two independent exact oracles",
    text="Generated-input search against an explicit oracle: every clause of the statement (value set membership, neighbour, nearest within the stated slack, sign, idempotence, oddness, monotonicity, saturation, shape/dtype, argument untouched, format extremes) is evaluated on ~1e8 (quick) / >8.5e9 (thorough) inputs; for the two FP8 formats the thorough tier covers every non-NaN float32 bit pattern, so the claim is exhaustive there and sampled elsewhere.",
    note="Trusts numpy float64 frexp/ldexp/floor and Python Fractions; oracles cross-validated at start-up; E=8 only for |x|<2^126 as stated.",
    design_ref="DESIGN.md section 4 C13",
    engine="enumeration",
)
claim(
    "C01",
    technique="Hypothesis property-based differential testing against PyTorch reference ops with a least-squares scalar fit (metamorphic: two data draws must give the same scalar)",
    text="Generated-input search: 2.4k (quick) / 60k (thorough) calls over all 16 public functions x shapes x 4 dtypes x every hyper-parameter x constraint names; each is compared with the PyTorch op on identical tensors: same shape/dtype, residual of the one-scalar fit ~ 0, scalar > 0 and equal across two independent data draws, scalar == 1 for losses/norms/embedding, inputs bit-identical and version-unchanged after forward and backward, unsupported arguments rejected.",
    note="PyTorch CPU ops are the trusted base; per-dtype tolerances stated in DESIGN.md section 3; sampling, not proof.",
    design_ref="DESIGN.md section 4 C01",
)
claim(
    "C02",
    technique="Hypothesis differential testing of autograd gradients against the PyTorch reference (per-input scalar fit; metamorphic over data draws, upstream gradients and repeated calls) + direct property tests of scale_fwd/scale_bwd",
    text="Generated-input search: for every differentiable input of every function the library gradient must be a positive scalar multiple of the reference gradient for the same upstream gradient, the scalar being identical across two data draws, two upstream draws and repeated calls; scale_fwd/scale_bwd are checked bitwise (value) / to 2 ulp (gradient) for factors in [-1e3,1e3] incl. 0 and negatives on rank 0-4 tensors of four dtypes.",
    note="PyTorch autograd is the trusted base; low-precision dtypes only decide 'roughly the same scalar'; sampling, not proof.",
    design_ref="DESIGN.md section 4 C02",
)
claim(
    "C03",
    technique="Hypothesis over shapes; fitted scalars (C01/C02 probes) times term counts measured on the PyTorch reference op with all-ones operands must equal 1 (exact-arithmetic style invariant, tolerance 1e-9)",
    text="Generated-input search over fan-in/fan-out/batch dims/broadcast patterns/conv geometry/vocabulary/p/tau: each forward and backward scale factor squared times the measured number of summed unit-variance terms equals 1 (linear_readout: scale x fan_in = 1), with the carve-outs of the statement (conv padding, interior positions, single-element operands, padding_idx).",
    note="Term counts are measured on the reference op, not taken from a formula; sampling of shapes, not proof.",
    design_ref="DESIGN.md section 4 C03",
)
