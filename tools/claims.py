# executed by gen_manifest.py; one claim() per property whose check is built and trusted
claim(
    "C13",
    technique="exhaustive enumeration of float32 bit patterns (E4M3/E5M2) + structured probes for all 168 formats + Hypothesis over dtype/shape/layout, against two independent exact oracles",
    text="Generated-input search against an explicit oracle: every clause of the statement (value set membership, neighbour, nearest within the stated slack, sign, idempotence, oddness, monotonicity, saturation, shape/dtype, argument untouched, format extremes) is evaluated on ~1e8 (quick) / >8.5e9 (thorough) inputs; for the two FP8 formats the thorough tier covers every non-NaN float32 bit pattern, so the claim is exhaustive there and sampled elsewhere.",
    note="Trusts numpy float64 frexp/ldexp/floor and Python Fractions; oracles cross-validated at start-up; E=8 only for |x|<2^126 as stated.",
    design_ref="DESIGN.md section 4 C13",
    engine="enumeration",
)
claim(
    "C01",
    technique="Hypothesis property-based differential testing against PyTorch reference ops with a least-squares scalar fit (metamorphic: two data draws must give the same scalar)",
    text="Generated-input search: 2.4k (quick) / 60k (thorough) calls over all 16 public functions x shapes x 4 dtypes x every hyper-parameter x constraint names; each is compared with the PyTorch op on identical tensors: same shape/dtype, residual of the one-scalar fit ~ 0, scalar > 0 and equal across two independent data draws, scalar == 1 for losses/norms/embedding, inputs bit-identical and version-unchanged after forward and backward, unsupported arguments rejected.",
    note="PyTorch CPU ops are the trusted base; per-dtype tolerances stated in DESIGN.md section 3; sampling, not proof.",
    design_ref="DESIGN.md section 4 C01",
)
claim(
    "C02",
    technique="Hypothesis differential testing of autograd gradients against the PyTorch reference (per-input scalar fit; metamorphic over data draws, upstream gradients and repeated calls) + direct property tests of scale_fwd/scale_bwd",
    text="Generated-input search: for every differentiable input of every function the library gradient must be a positive scalar multiple of the reference gradient for the same upstream gradient, the scalar being identical across two data draws, two upstream draws and repeated calls; scale_fwd/scale_bwd are checked bitwise (value) / to 2 ulp (gradient) for factors in [-1e3,1e3] incl. 0 and negatives on rank 0-4 tensors of four dtypes.",
    note="PyTorch autograd is the trusted base; low-precision dtypes only decide 'roughly the same scalar'; sampling, not proof.",
    design_ref="DESIGN.md section 4 C02",
)
claim(
    "C03",
    technique="Hypothesis over shapes; fitted scalars (C01/C02 probes) times term counts measured on the PyTorch reference op with all-ones operands must equal 1 (exact-arithmetic style invariant, tolerance 1e-9)",
    text="Generated-input search over fan-in/fan-out/batch dims/broadcast patterns/conv geometry/vocabulary/p/tau: each forward and backward scale factor squared times the measured number of summed unit-variance terms equals 1 (linear_readout: scale x fan_in = 1), with the carve-outs of the statement (conv padding, interior positions, single-element operands, padding_idx).",
    note="Term counts are measured on the reference op, not taken from a formula; sampling of shapes, not proof.",
    design_ref="DESIGN.md section 4 C03",
)
claim(
    "C05",
    technique="Hypothesis: rule functions against statistics/Fractions references, unknown-name fuzzing, and per-op fitted scalars under every constraint vs the rule applied to scalars fitted under None, plus torch.autograd.gradcheck",
    text="Generated-input search: mean rules (symmetry, bounds, ordering, value) on 1-6 scales in [1e-6,1e6]; arbitrary/near-miss/module-attribute names must raise ValueError through apply_constraint and through ops; for every constrained op and valid name the fitted forward and constrained-input backward scalars equal the independently computed rule value, weight/bias scalars are unaffected and finite differences agree with the gradients of constrained inputs.",
    note="statistics module / Fractions and torch gradcheck are the trusted base; the gradcheck settings are self-tested against a harness op with mismatched scales.",
    design_ref="DESIGN.md section 4 C05",
)
claim(
    "C07",
    technique="exhaustive enumeration of the (depth, mult, ratio) grid against a closed form in exact rational arithmetic + Hypothesis over constructed TransformerDecoder/TransformerStack wiring",
    text="Thorough enumerates all 256 x 17 x 17 configurations (complete for the stated grid): every tau squared equals the closed form derived from the statement (Fractions, rel 1e-12) and the five balance statements hold when recomputed from the returned taus alone; constructed stacks carry rule(2i), rule(2i+1) on layer i and call the rule with (i, 2L) for i = 0..2L-1.",
    note="Closed form derived in DESIGN.md from the statement; balance recomputation in float64 (<= 512 factors).",
    design_ref="DESIGN.md section 4 C07",
    engine="enumeration",
)
claim(
    "C10",
    technique="Hypothesis over parameter shapes/tags/depths/lr kinds/group layouts/optimizers against an independent u-muP learning-rate oracle written from the statement",
    text="Generated-input search: the lr of every returned group (scaled_parameters with three scale functions; SGD/Adam/AdamW classes with both readout constraints) equals source lr x oracle factor (rel 1e-12 float, 1e-6 float32 tensor); untagged parameters, 4-D weights and a missing lr raise ValueError exactly when the statement says so.",
    note="Oracle factor table is transcribed from the property statement, not from optim.py.",
    design_ref="DESIGN.md section 4 C10",
)
claim(
    "C11",
    technique="Hypothesis over group layouts with a structural model of the expected groups (identity, order, carried keys, aliasing) followed by 1-3 zero-gradient optimizer steps checked against (1-wd)^k",
    text="Generated-input search: result groups hold each input parameter exactly once in order with every other option carried over, the caller's groups and lr tensors are bit-identical with unchanged version counters, no lr tensor object is shared between result groups or with the caller, lr x weight_decay equals the requested decay, and zero-gradient SGD/AdamW steps multiply each parameter by (1-wd)^k.",
    note="torch.optim.SGD/AdamW step semantics trusted; Adam excluded as in the statement.",
    design_ref="DESIGN.md section 4 C11",
)
claim(
    "C12",
    technique="Hypothesis over widths/kernels/depths/learning rates with a closed-form oracle (every output moves by exactly eta/sqrt(depth) x sign of the upstream gradient)",
    text="Generated-input search over fan_in/fan_out up to 4096, kernel 1-9, depth None/1..64, eta in [1e-4,1], Adam/AdamW eps=0: layer(x) after one step minus before equals -eta/sqrt(depth) x sign(g) to 1e-9 of eta.",
    note="First Adam step with eps=0 is -lr*sign(grad) (torch.optim trusted).",
    design_ref="DESIGN.md section 4 C12",
)
claim(
    "C14",
    technique="exhaustive enumeration of all 2^srbits random draws per input by substituting torch.randint; probabilities counted against the exact fractional position",
    text="For every format E2..7 x M0..10 and srbits 1..12 / default, one quantise call enumerates every draw for a block of inputs: each result is a neighbour, representable inputs never move, P(round away) equals the fractional position exactly (all bits) or within half a unit of 2^-srbits (+ stated float32 slack below min normal), the draw request is exactly (0, 2^srbits, x.shape), and per-element draws act independently.",
    note="Draw space enumerated exhaustively, input space sampled (structured + random).",
    design_ref="DESIGN.md section 4 C14",
    engine="enumeration",
)
claim(
    "C04",
    technique="Hypothesis over continuous hyper-parameter ranges; deterministic Simpson quadrature (elementwise ops) and fixed-seed 2^20-element Monte-Carlo (softmax, attention, cross-entropy, norms) against the bands of the statement",
    text="Generated-input search: the output standard deviation / RMS and gradient RMS of each nonlinear op are evaluated under N(0,1) inputs and upstream gradients for grid, end-point and log-uniform hyper-parameters and compared with the bands in the statement; the uniform-logit cross-entropy gradient is checked to be exactly 1.",
    note="Band oracle: regressions inside the band are by definition not violations; quadrature convergence is self-checked (2^17 vs 2^15 points).",
    design_ref="DESIGN.md section 4 C04",
)
claim(
    "C06",
    technique="Hypothesis recursive strategy over residual program trees, differential against the closed form (x + tau f(x))/sqrt(1+tau^2) evaluated with plain torch autograd; gradient hooks; gradcheck",
    text="Generated-input search over 1-8 nested/sequential residual layers with branch functions from a differentiable family and tau in [1e-3,1e3]: outputs and x.grad equal the closed form (rel 1e-10/1e-9), the gradient at the branch output equals the gradient at the add output (unattenuated), mixing weights are normalised with ratio tau, residual_apply is bitwise split/f/add, gradcheck passes.",
    note="Unit-scaled ops inside branches are evaluated by the library on both sides (their own correctness is C01/C02/C05).",
    design_ref="DESIGN.md section 4 C06",
)
claim(
    "C08",
    technique="Hypothesis over module class x constructor options x mode x shapes; differential (bitwise) against the documented functional form on the module's own parameters and (scalar fit) against the same-named torch.nn twin sharing the state_dict; statistical init windows; tag table",
    text="Generated-input search: every public module with every constructor option varied computes bit-for-bit what the corresponding unit_scaling.functional composition computes (outputs and all gradients), matches its torch.nn twin in shape and up to one positive scalar, rejects unsupported options at construction, starts with unit-variance weights / zero biases / unit gains (7-sigma windows) and carries the expected u-muP type and depth tags, depth containers refusing untagged parameters.",
    note="einops and torch.nn are trusted; functional forms of MLP/MHSA/TransformerLayer/TransformerDecoder are written out in the harness from their docstrings.",
    design_ref="DESIGN.md section 4 C08",
)
claim(
    "C09",
    technique="Hypothesis history generation (operation sequences of length 0-4, model-based: a reference model of tag/depth/values/requires_grad/lr carried alongside and compared after every step)",
    text="Generated histories over deep copies, pickle and torch.save/load round trips of the parameter or its module, dtype conversions, state-dict loads, requires_grad toggles and library transforms: after every step the parameter is still an nn.Parameter with the model's tag, depth, values and requires_grad, and scaled_parameters / SGD / Adam / AdamW accept it with the original learning-rate factor.",
    note="Histories drawn as lists rather than a RuleBasedStateMachine (same search space, replayable as data); pickling a module after a transform and transforms after track_scales are outside the domain.",
    design_ref="DESIGN.md section 4 C09",
)
claim(
    "C15",
    technique="Hypothesis-generated module programs run through the real TorchDynamo path of simulate_format, differential (bit-equal) against a reference interpreter with hand-written straight-through quantisation; metamorphic lossless-format identity; pinned random source",
    text="Generated-input search over programs (linear / attention in every argument spelling, their unit-scaled forms, elementwise ops, norms, adds, reshapes; several root kinds) x format pairs x rounding modes: outputs and every gradient of the transformed module are bit-equal to the reference that quantises exactly the tensor operands of each linear/attention forward and the gradient of its output backward with the caller's formats; E8M23 reproduces the untransformed module bit for bit; simulate_fp8 == E4M3/E5M2 instance; quantise_fwd / quantise_bwd primitive clauses.",
    note="Roots whose class is defined in torch.nn (bare nn.Linear, nn.Sequential, nested nn.Sequential, programs behind an nn.Sequential) are part of the domain since the fix a7da9d1; FPFormat.quantise itself is trusted here (C13/C14). One known finding (C15.lossless.last-ulp: a last-ulp gradient difference of the lossless E8M23 simulation in rare graphs) is reported as KNOWN-FINDING; larger differences are violations.",
    design_ref="DESIGN.md section 4 C15",
)
claim(
    "C16",
    technique="Hypothesis-generated module programs traced by unit_scale's real TorchDynamo path, differential against an independent reference interpreter that applies the User-Guide recipe on the DSL's own data flow; rewritten-graph node multiset; weight re-initialisation clauses",
    text="Generated-input search over chains/DAGs of 1-16 mapped and unmapped ops with every add spelling and 0-4 well-nested residual blocks (skip = input, residual output or plain sum), torch.nn wrappers: unit_scale(m) runs, computes the same outputs and gradients as the hand conversion (residual_split/residual_add with tau 0.5 / 0.01, unconstrained plain adds, unconstrained ops after the last residual), leaves the original untouched, re-initialises Linear/Embedding weights to std 1 and biases to 0, honours user replacements first.",
    note="TorchDynamo capture itself is trusted; float32 rtol 2e-5 (observed bit-equal).",
    design_ref="DESIGN.md section 4 C16",
)
claim(
    "C17",
    technique="Hypothesis history generation over transform chains (model-based: snapshot of the original, backend-list model, order-swapped twin, reference interpreter applying each transform once)",
    text="Generated chains (unit_scale at most once, one format simulation, either order, optional track_scales/compile at the end) on DSL programs and on a block built from unit-scaled layers, each followed by 1-3 forward/backward calls: the original's parameters/attributes/outputs/gradients are unchanged, no storage is shared along the chain, repeated calls are bit-equal, backends hold each transform once with unit scaling first, the result equals the reference interpreter, swapped orders agree bit for bit after parameter synchronisation, track_scales appended changes nothing.",
    note="Stochastic rounding pinned by substituting torch.randint; compile-terminated chains only in the thorough tier.",
    design_ref="DESIGN.md section 4 C17",
)
claim(
    "C18",
    technique="Hypothesis-generated module programs; differential against the untracked module (bit-identity) and against statistics recomputed with numpy from tensors captured by an independent fx.Interpreter with autograd hooks",
    text="Generated-input search over graphs with fan-out, integer/bool intermediates, list consumers, multiple outputs, forward-only and forward+backward: track_scales changes no output or gradient bit; every float node's recorded mean|x|, |mean x|, std, max|x|, min|x|, numel (forward and backward) equals the statistics of the tensor / total gradient captured independently; backward metrics exist iff a gradient arrived; non-float nodes are uninstrumented; analyse_module leaves gradients bit-equal and annotates the captured standard deviations.",
    note="Metrics are float32 in the library: rel 1e-4 / abs 1e-7 (+1e-5 x max|x| for the two difference-type statistics).",
    design_ref="DESIGN.md section 4 C18",
)
claim(
    "C19",
    technique="Hypothesis-generated tracked graphs pruned five ways, compared with a representative-map model of the expected node list and input sets (networkx reachability for diagnostics); lint; input-graph snapshot",
    text="Generated-input search: each pruning helper returns a lint-clean graph whose node list (in order) and per-node input sets equal the model computed from the input graph - removed nodes with one float input bypassed wherever they occurred (positional, keyword, nested), selective pruning cutting the edge - and the copying helpers leave their input graph unchanged.",
    note="Nodes whose 'single float input' status depends on reading (positional vs all inputs) are accepted under either reading.",
    design_ref="DESIGN.md section 4 C19",
)
claim(
    "C20",
    technique="Hypothesis differential testing: eager vs torch.compile (aot_eager; inductor in the thorough tier) vs fx.symbolic_trace for every function, module and random compositions",
    text="Generated-input search: outputs and all gradients of every unit-scaled function (C01's configuration space, 3 dtypes), every module (C08's configurations) and hand-converted DSL compositions agree between eager and compiled execution within dtype tolerance, including distinct forward/backward factors under constraint None; fx.GraphModule forward values equal eager wherever plain fx can trace the op.",
    note="Stochastic configurations excluded (RNG streams not comparable); inductor sampled only in thorough.",
    design_ref="DESIGN.md section 4 C20",
)
