# executed by gen_manifest.py; one claim() per property whose check is built and trusted
claim(
    "C13",
    technique="exhaustive enumeration of float32 bit patterns (E4M3/E5M2) + structured probes for all 168 formats + Hypothesis over dtype/shape/layout, against two independent exact oracles",
    text="Generated-input search against an explicit oracle: every clause of the statement (value set membership, neighbour, nearest within the stated slack, sign, idempotence, oddness, monotonicity, saturation, shape/dtype, argument untouched, format extremes) is evaluated on ~1e8 (quick) / >8.5e9 (thorough) inputs; for the two FP8 formats the thorough tier covers every non-NaN float32 bit pattern, so the claim is exhaustive there and sampled elsewhere.",
    note="Trusts numpy float64 frexp/ldexp/floor and Python Fractions; oracles cross-validated at start-up; E=8 only for |x|<2^126 as stated.",
    design_ref="DESIGN.md section 4 C13",
    engine="enumeration",
)
